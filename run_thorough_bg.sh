#!/bin/sh
# background experiment: thorough tier of every check into a scratch directory
out=${1:-/root/.vp/scratch-thorough}
mkdir -p $out
export ZSYM_OUT_DIR=$out
# private copy of the engine binary: rebuilding /verif/bin/zsym meanwhile does not disturb this run
cp /verif/bin/zsym $out/zsym && export ZSYM_BIN=$out/zsym
cd /verif
for id in ${ZSYM_IDS:-$(python3 -c "import json; print(' '.join(sorted(json.load(open('checks.json')).keys())))")}; do
  t0=$(date +%s)
  ./check $id thorough > $out/$id.out 2>&1
  rc=$?
  t1=$(date +%s)
  inc=$(python3 -c "import json; e=json.load(open('$out/evidence/$id.json')); print(e['coverage']['incomplete'], e['coverage']['traces_validated_against_impl'], e['coverage']['states'])" 2>/dev/null)
  echo "$id rc=$rc $((t1-t0))s $inc"
done
