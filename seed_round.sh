#!/bin/sh
# evaluate the seeded changes of one round (suffix a|b|c|d) against the check of their own property
suffix=${1:-d}
cd /verif
for d in $(ls seeded | grep -- "-$suffix\$" | sort); do
  id=${d%%-*}
  out=$(./seed_eval.sh $id /verif/seeded/$d quick 2>&1)
  conf=$(echo "$out" | grep -c "demo-on-clean rc=0 (want 0) | suite-with-change rc=0 (want 0) | demo-with-change rc=1")
  rc=$(echo "$out" | grep "^CHECK" | sed 's/.*rc=//')
  echo "$d confirmed=$conf check_rc=$rc"
done
