// Package smt: hash-consed SMT term DAG, SMT-LIB2 printer, concrete evaluator
// and a pipe to a long-lived solver process.
package smt

import (
	"fmt"
	"math"
	"strconv"
	"strings"
)

type Kind uint8

const (
	KBool Kind = iota
	KBV
	KFP64
	KFP32
)

type Sort struct {
	K Kind
	W int // bit width for KBV
}

var (
	Bool = Sort{K: KBool}
	FP64 = Sort{K: KFP64}
	FP32 = Sort{K: KFP32}
	BV8  = Sort{KBV, 8}
	BV32 = Sort{KBV, 32}
	BV64 = Sort{KBV, 64}
)

func BV(w int) Sort { return Sort{KBV, w} }

func (s Sort) String() string {
	switch s.K {
	case KBool:
		return "Bool"
	case KBV:
		return fmt.Sprintf("(_ BitVec %d)", s.W)
	case KFP64:
		return "(_ FloatingPoint 11 53)"
	case KFP32:
		return "(_ FloatingPoint 8 24)"
	}
	return "?"
}

type Op uint8

const (
	OVar Op = iota
	OConst
	ONot
	OAnd
	OOr
	OIte
	OEq
	OBVAdd
	OBVSub
	OBVMul
	OBVUDiv
	OBVSDiv
	OBVURem
	OBVSRem
	OBVAnd
	OBVOr
	OBVXor
	OBVNot
	OBVNeg
	OBVShl
	OBVLshr
	OBVAshr
	OBVUlt
	OBVUle
	OBVSlt
	OBVSle
	OExtract // P1=hi P2=lo
	OZeroExt // P1=extra bits
	OSignExt
	OConcat
	OFPAdd
	OFPSub
	OFPMul
	OFPDiv
	OFPNeg
	OFPAbs
	OFPSqrt
	OFPRem // IEEE 754 remainder (round-to-nearest quotient), exact
	OFPRti // P1 = rounding mode (RNE=0,RTN=1,RTP=2,RTZ=3)
	OFPLt
	OFPLeq
	OFPEq // IEEE equality
	OFPIsNaN
	OFPIsInf
	OFPToSBV // P1 = width, RTZ
	OFPToUBV
	OSBVToFP // result sort in Sort
	OUBVToFP
	OFPToFP // fp -> fp of other precision
	OBitsToFP
	OApp // uninterpreted function Name(args)
)

var opNames = map[Op]string{
	ONot: "not", OAnd: "and", OOr: "or", OIte: "ite", OEq: "=",
	OBVAdd: "bvadd", OBVSub: "bvsub", OBVMul: "bvmul", OBVUDiv: "bvudiv", OBVSDiv: "bvsdiv",
	OBVURem: "bvurem", OBVSRem: "bvsrem", OBVAnd: "bvand", OBVOr: "bvor", OBVXor: "bvxor",
	OBVNot: "bvnot", OBVNeg: "bvneg", OBVShl: "bvshl", OBVLshr: "bvlshr", OBVAshr: "bvashr",
	OBVUlt: "bvult", OBVUle: "bvule", OBVSlt: "bvslt", OBVSle: "bvsle", OConcat: "concat",
	OFPAdd: "fp.add RNE", OFPSub: "fp.sub RNE", OFPMul: "fp.mul RNE", OFPDiv: "fp.div RNE",
	OFPNeg: "fp.neg", OFPAbs: "fp.abs", OFPSqrt: "fp.sqrt RNE", OFPRem: "fp.rem",
	OFPLt: "fp.lt", OFPLeq: "fp.leq", OFPEq: "fp.eq", OFPIsNaN: "fp.isNaN", OFPIsInf: "fp.isInfinite",
}

var rmNames = []string{"RNE", "RTN", "RTP", "RTZ"}

type Term struct {
	ID   int
	Op   Op
	Args []*Term
	Sort Sort
	U    uint64 // constant payload for Bool/BV (bool: 0/1); for FP the IEEE bits
	Name string // var / UF name
	P1   int
	P2   int
}

func (t *Term) IsConst() bool { return t.Op == OConst }
func (t *Term) IsTrue() bool  { return t.Op == OConst && t.Sort.K == KBool && t.U == 1 }
func (t *Term) IsFalse() bool { return t.Op == OConst && t.Sort.K == KBool && t.U == 0 }

// Builder hash-conses terms. Not safe for concurrent use (one per path).
type Builder struct {
	Bound map[*Term]*Term // variables whose value is fixed by the path condition
	tab   map[string]*Term
	n     int
	Vars  []*Term
	UFs   map[string]string // name -> declaration
	UFSeq []string
}

func NewBuilder() *Builder {
	return &Builder{tab: map[string]*Term{}, UFs: map[string]string{}, Bound: map[*Term]*Term{}}
}

func (b *Builder) NumTerms() int { return b.n }

// Resolve replaces a variable bound by the path condition with its value.
func (b *Builder) Resolve(t *Term) *Term {
	if t.Op == OVar {
		if c, ok := b.Bound[t]; ok {
			return c
		}
	}
	return t
}

// Bind records that the path condition fixes variable v to constant c.
func (b *Builder) Bind(v, c *Term) {
	if v.Op == OVar && c.Op == OConst {
		b.Bound[v] = c
	}
}

func (b *Builder) mk(op Op, s Sort, u uint64, name string, p1, p2 int, args ...*Term) *Term {
	var sb strings.Builder
	sb.WriteByte(byte(op) + 33)
	sb.WriteByte(byte(s.K) + 48)
	sb.WriteString(strconv.Itoa(s.W))
	sb.WriteByte(':')
	if op == OConst {
		sb.WriteString(strconv.FormatUint(u, 16))
	}
	if name != "" {
		sb.WriteString(name)
	}
	if p1 != 0 || p2 != 0 {
		sb.WriteByte('/')
		sb.WriteString(strconv.Itoa(p1))
		sb.WriteByte('/')
		sb.WriteString(strconv.Itoa(p2))
	}
	for _, a := range args {
		sb.WriteByte(',')
		sb.WriteString(strconv.Itoa(a.ID))
	}
	k := sb.String()
	if t, ok := b.tab[k]; ok {
		return t
	}
	b.n++
	t := &Term{ID: b.n, Op: op, Args: args, Sort: s, U: u, Name: name, P1: p1, P2: p2}
	b.tab[k] = t
	return t
}

func (b *Builder) Var(name string, s Sort) *Term {
	before := b.n
	t := b.mk(OVar, s, 0, name, 0, 0)
	if b.n != before {
		b.Vars = append(b.Vars, t)
	}
	return t
}

func mask(w int) uint64 {
	if w >= 64 {
		return ^uint64(0)
	}
	return (uint64(1) << uint(w)) - 1
}

func (b *Builder) BoolC(v bool) *Term {
	if v {
		return b.mk(OConst, Bool, 1, "", 0, 0)
	}
	return b.mk(OConst, Bool, 0, "", 0, 0)
}
func (b *Builder) BVC(w int, v uint64) *Term { return b.mk(OConst, BV(w), v&mask(w), "", 0, 0) }
func (b *Builder) FPC(v float64) *Term       { return b.mk(OConst, FP64, math.Float64bits(v), "", 0, 0) }
func (b *Builder) FP32C(v float32) *Term {
	return b.mk(OConst, FP32, uint64(math.Float32bits(v)), "", 0, 0)
}

func (b *Builder) Not(x *Term) *Term {
	x = b.Resolve(x)
	if x.IsConst() {
		return b.BoolC(x.U == 0)
	}
	if x.Op == ONot {
		return x.Args[0]
	}
	return b.mk(ONot, Bool, 0, "", 0, 0, x)
}

func (b *Builder) And(x, y *Term) *Term {
	x = b.Resolve(x)
	y = b.Resolve(y)
	if x.IsConst() {
		if x.U == 0 {
			return x
		}
		return y
	}
	if y.IsConst() {
		if y.U == 0 {
			return y
		}
		return x
	}
	if x == y {
		return x
	}
	return b.mk(OAnd, Bool, 0, "", 0, 0, x, y)
}

func (b *Builder) Or(x, y *Term) *Term {
	x = b.Resolve(x)
	y = b.Resolve(y)
	if x.IsConst() {
		if x.U == 1 {
			return x
		}
		return y
	}
	if y.IsConst() {
		if y.U == 1 {
			return y
		}
		return x
	}
	if x == y {
		return x
	}
	return b.mk(OOr, Bool, 0, "", 0, 0, x, y)
}

func (b *Builder) Ite(c, x, y *Term) *Term {
	c = b.Resolve(c)
	x = b.Resolve(x)
	y = b.Resolve(y)
	if c.IsConst() {
		if c.U == 1 {
			return x
		}
		return y
	}
	if x == y {
		return x
	}
	if x.Sort.K == KBool {
		if x.IsTrue() && y.IsFalse() {
			return c
		}
		if x.IsFalse() && y.IsTrue() {
			return b.Not(c)
		}
	}
	return b.mk(OIte, x.Sort, 0, "", 0, 0, c, x, y)
}

// Eq is SMT structural equality (for FP: identity, one NaN, +0 != -0).
func (b *Builder) Eq(x, y *Term) *Term {
	x = b.Resolve(x)
	y = b.Resolve(y)
	if x == y {
		return b.BoolC(true)
	}
	if x.IsConst() && y.IsConst() {
		return b.BoolC(x.U == y.U)
	}
	if x.Sort.K == KBool {
		if x.IsConst() {
			x, y = y, x
		}
		if y.IsConst() {
			if y.U == 1 {
				return x
			}
			return b.Not(x)
		}
	}
	if x.ID > y.ID {
		x, y = y, x
	}
	// (ite c a b) == const folding when a,b const
	return b.mk(OEq, Bool, 0, "", 0, 0, x, y)
}

func sext(v uint64, w int) int64 {
	if w >= 64 {
		return int64(v)
	}
	sh := uint(64 - w)
	return int64(v<<sh) >> sh
}

// BVBin builds a binary bit-vector operation with constant folding.
func (b *Builder) BVBin(op Op, x, y *Term) *Term {
	x = b.Resolve(x)
	y = b.Resolve(y)
	w := x.Sort.W
	if x.Sort != y.Sort {
		panic(fmt.Sprintf("smt: sort mismatch %v %v in op %d", x.Sort, y.Sort, op))
	}
	if x.IsConst() && y.IsConst() {
		if v, ok := evalBVBin(op, w, x.U, y.U); ok {
			if isPred(op) {
				return b.BoolC(v == 1)
			}
			return b.BVC(w, v)
		}
	}
	rs := x.Sort
	if isPred(op) {
		rs = Bool
		if x == y {
			switch op {
			case OBVUle, OBVSle:
				return b.BoolC(true)
			case OBVUlt, OBVSlt:
				return b.BoolC(false)
			}
		}
	} else {
		// light identities
		switch op {
		case OBVAdd, OBVOr, OBVXor:
			if x.IsConst() && x.U == 0 {
				return y
			}
			if y.IsConst() && y.U == 0 {
				return x
			}
		case OBVSub, OBVShl, OBVLshr, OBVAshr:
			if y.IsConst() && y.U == 0 {
				return x
			}
		}
	}
	return b.mk(op, rs, 0, "", 0, 0, x, y)
}

func isPred(op Op) bool {
	switch op {
	case OBVUlt, OBVUle, OBVSlt, OBVSle:
		return true
	}
	return false
}

func evalBVBin(op Op, w int, x, y uint64) (uint64, bool) {
	m := mask(w)
	b2u := func(v bool) uint64 {
		if v {
			return 1
		}
		return 0
	}
	switch op {
	case OBVAdd:
		return (x + y) & m, true
	case OBVSub:
		return (x - y) & m, true
	case OBVMul:
		return (x * y) & m, true
	case OBVUDiv:
		if y == 0 {
			return m, true
		}
		return (x / y) & m, true
	case OBVURem:
		if y == 0 {
			return x, true
		}
		return (x % y) & m, true
	case OBVSDiv:
		sx, sy := sext(x, w), sext(y, w)
		if sy == 0 {
			if sx < 0 {
				return 1, true
			}
			return m, true
		}
		if sy == -1 {
			return uint64(-sx) & m, true
		}
		return uint64(sx/sy) & m, true
	case OBVSRem:
		sx, sy := sext(x, w), sext(y, w)
		if sy == 0 {
			return x, true
		}
		if sy == -1 {
			return 0, true
		}
		return uint64(sx%sy) & m, true
	case OBVAnd:
		return x & y, true
	case OBVOr:
		return x | y, true
	case OBVXor:
		return x ^ y, true
	case OBVShl:
		if y >= uint64(w) {
			return 0, true
		}
		return (x << y) & m, true
	case OBVLshr:
		if y >= uint64(w) {
			return 0, true
		}
		return x >> y, true
	case OBVAshr:
		sx := sext(x, w)
		if y >= uint64(w) {
			if sx < 0 {
				return m, true
			}
			return 0, true
		}
		return uint64(sx>>y) & m, true
	case OBVUlt:
		return b2u(x < y), true
	case OBVUle:
		return b2u(x <= y), true
	case OBVSlt:
		return b2u(sext(x, w) < sext(y, w)), true
	case OBVSle:
		return b2u(sext(x, w) <= sext(y, w)), true
	}
	return 0, false
}

func (b *Builder) BVNot(x *Term) *Term {
	x = b.Resolve(x)
	if x.IsConst() {
		return b.BVC(x.Sort.W, ^x.U)
	}
	return b.mk(OBVNot, x.Sort, 0, "", 0, 0, x)
}
func (b *Builder) BVNeg(x *Term) *Term {
	x = b.Resolve(x)
	if x.IsConst() {
		return b.BVC(x.Sort.W, -x.U)
	}
	return b.mk(OBVNeg, x.Sort, 0, "", 0, 0, x)
}

func (b *Builder) Extract(hi, lo int, x *Term) *Term {
	x = b.Resolve(x)
	if lo == 0 && hi == x.Sort.W-1 {
		return x
	}
	if x.IsConst() {
		return b.BVC(hi-lo+1, x.U>>uint(lo))
	}
	return b.mk(OExtract, BV(hi-lo+1), 0, "", hi, lo, x)
}

func (b *Builder) ZeroExt(extra int, x *Term) *Term {
	x = b.Resolve(x)
	if extra == 0 {
		return x
	}
	if x.IsConst() {
		return b.BVC(x.Sort.W+extra, x.U)
	}
	return b.mk(OZeroExt, BV(x.Sort.W+extra), 0, "", extra, 0, x)
}

func (b *Builder) SignExt(extra int, x *Term) *Term {
	x = b.Resolve(x)
	if extra == 0 {
		return x
	}
	if x.IsConst() {
		return b.BVC(x.Sort.W+extra, uint64(sext(x.U, x.Sort.W)))
	}
	return b.mk(OSignExt, BV(x.Sort.W+extra), 0, "", extra, 0, x)
}

func (b *Builder) Concat(hi, lo *Term) *Term {
	hi = b.Resolve(hi)
	lo = b.Resolve(lo)
	if hi.IsConst() && lo.IsConst() {
		return b.BVC(hi.Sort.W+lo.Sort.W, hi.U<<uint(lo.Sort.W)|lo.U)
	}
	return b.mk(OConcat, BV(hi.Sort.W+lo.Sort.W), 0, "", 0, 0, hi, lo)
}

// Resize converts a bit-vector to width w (truncate / sign- or zero-extend).
func (b *Builder) Resize(x *Term, w int, signed bool) *Term {
	switch {
	case x.Sort.W == w:
		return x
	case x.Sort.W > w:
		return b.Extract(w-1, 0, x)
	case signed:
		return b.SignExt(w-x.Sort.W, x)
	default:
		return b.ZeroExt(w-x.Sort.W, x)
	}
}

func (b *Builder) FPBin(op Op, x, y *Term) *Term {
	x = b.Resolve(x)
	y = b.Resolve(y)
	rs := x.Sort
	switch op {
	case OFPLt, OFPLeq, OFPEq:
		rs = Bool
	}
	if x.IsConst() && y.IsConst() && x.Sort.K == KFP64 {
		fx, fy := math.Float64frombits(x.U), math.Float64frombits(y.U)
		switch op {
		case OFPAdd:
			return b.FPC(fx + fy)
		case OFPSub:
			return b.FPC(fx - fy)
		case OFPMul:
			return b.FPC(fx * fy)
		case OFPDiv:
			return b.FPC(fx / fy)
		case OFPRem:
			return b.FPC(math.Remainder(fx, fy))
		case OFPLt:
			return b.BoolC(fx < fy)
		case OFPLeq:
			return b.BoolC(fx <= fy)
		case OFPEq:
			return b.BoolC(fx == fy)
		}
	}
	return b.mk(op, rs, 0, "", 0, 0, x, y)
}

func (b *Builder) FPUn(op Op, x *Term) *Term {
	x = b.Resolve(x)
	rs := x.Sort
	switch op {
	case OFPIsNaN, OFPIsInf:
		rs = Bool
	}
	if x.IsConst() && x.Sort.K == KFP64 {
		fx := math.Float64frombits(x.U)
		switch op {
		case OFPNeg:
			return b.FPC(-fx)
		case OFPAbs:
			return b.FPC(math.Abs(fx))
		case OFPSqrt:
			return b.FPC(math.Sqrt(fx))
		case OFPIsNaN:
			return b.BoolC(fx != fx)
		case OFPIsInf:
			return b.BoolC(math.IsInf(fx, 0))
		}
	}
	return b.mk(op, rs, 0, "", 0, 0, x)
}

// FPRti: round to integral with mode (0 RNE, 1 RTN floor, 2 RTP ceil, 3 RTZ trunc)
func (b *Builder) FPRti(mode int, x *Term) *Term {
	x = b.Resolve(x)
	if x.IsConst() && x.Sort.K == KFP64 {
		fx := math.Float64frombits(x.U)
		switch mode {
		case 0:
			return b.FPC(math.RoundToEven(fx))
		case 1:
			return b.FPC(math.Floor(fx))
		case 2:
			return b.FPC(math.Ceil(fx))
		case 3:
			return b.FPC(math.Trunc(fx))
		}
	}
	return b.mk(OFPRti, x.Sort, 0, "", mode, 0, x)
}

func (b *Builder) FPToSBV(w int, x *Term) *Term { return b.mk(OFPToSBV, BV(w), 0, "", w, 0, x) }
func (b *Builder) FPToUBV(w int, x *Term) *Term { return b.mk(OFPToUBV, BV(w), 0, "", w, 0, x) }
func (b *Builder) SBVToFP(s Sort, x *Term) *Term {
	x = b.Resolve(x)
	if x.IsConst() && s.K == KFP64 {
		return b.FPC(float64(sext(x.U, x.Sort.W)))
	}
	return b.mk(OSBVToFP, s, 0, "", 0, 0, x)
}
func (b *Builder) UBVToFP(s Sort, x *Term) *Term {
	x = b.Resolve(x)
	if x.IsConst() && s.K == KFP64 {
		return b.FPC(float64(x.U))
	}
	return b.mk(OUBVToFP, s, 0, "", 0, 0, x)
}
func (b *Builder) FPToFP(s Sort, x *Term) *Term {
	if x.Sort == s {
		return x
	}
	return b.mk(OFPToFP, s, 0, "", 0, 0, x)
}
func (b *Builder) BitsToFP(s Sort, x *Term) *Term {
	if x.IsConst() {
		return b.mk(OConst, s, x.U, "", 0, 0)
	}
	return b.mk(OBitsToFP, s, 0, "", 0, 0, x)
}

// App builds an uninterpreted function application; the function is declared
// on first use with the sorts of its arguments.
func (b *Builder) App(name string, rs Sort, args ...*Term) *Term {
	if _, ok := b.UFs[name]; !ok {
		var sb strings.Builder
		fmt.Fprintf(&sb, "(declare-fun %s (", name)
		for i, a := range args {
			if i > 0 {
				sb.WriteByte(' ')
			}
			sb.WriteString(a.Sort.String())
		}
		fmt.Fprintf(&sb, ") %s)", rs.String())
		b.UFs[name] = sb.String()
		b.UFSeq = append(b.UFSeq, name)
	}
	return b.mk(OApp, rs, 0, name, 0, 0, args...)
}

// ---------------------------------------------------------------- printing

func constString(t *Term) string {
	switch t.Sort.K {
	case KBool:
		if t.U == 1 {
			return "true"
		}
		return "false"
	case KBV:
		if t.Sort.W%4 == 0 {
			return fmt.Sprintf("#x%0*x", t.Sort.W/4, t.U)
		}
		return fmt.Sprintf("#b%0*b", t.Sort.W, t.U)
	case KFP64:
		return fmt.Sprintf("(fp #b%b #b%011b #x%013x)", t.U>>63, (t.U>>52)&0x7ff, t.U&((1<<52)-1))
	case KFP32:
		return fmt.Sprintf("(fp #b%b #b%08b #b%023b)", (t.U>>31)&1, (t.U>>23)&0xff, t.U&((1<<23)-1))
	}
	return "?"
}

func fpParams(s Sort) string {
	if s.K == KFP32 {
		return "8 24"
	}
	return "11 53"
}

// Head returns the SMT-LIB text of t with its arguments referred to by ref().
func (t *Term) render(ref func(*Term) string) string {
	switch t.Op {
	case OVar:
		return t.Name
	case OConst:
		return constString(t)
	}
	var sb strings.Builder
	sb.WriteByte('(')
	switch t.Op {
	case OExtract:
		fmt.Fprintf(&sb, "(_ extract %d %d)", t.P1, t.P2)
	case OZeroExt:
		fmt.Fprintf(&sb, "(_ zero_extend %d)", t.P1)
	case OSignExt:
		fmt.Fprintf(&sb, "(_ sign_extend %d)", t.P1)
	case OFPRti:
		fmt.Fprintf(&sb, "fp.roundToIntegral %s", rmNames[t.P1])
	case OFPToSBV:
		fmt.Fprintf(&sb, "(_ fp.to_sbv %d) RTZ", t.P1)
	case OFPToUBV:
		fmt.Fprintf(&sb, "(_ fp.to_ubv %d) RTZ", t.P1)
	case OSBVToFP:
		fmt.Fprintf(&sb, "(_ to_fp %s) RNE", fpParams(t.Sort))
	case OUBVToFP:
		fmt.Fprintf(&sb, "(_ to_fp_unsigned %s) RNE", fpParams(t.Sort))
	case OFPToFP:
		fmt.Fprintf(&sb, "(_ to_fp %s) RNE", fpParams(t.Sort))
	case OBitsToFP:
		fmt.Fprintf(&sb, "(_ to_fp %s)", fpParams(t.Sort))
	case OApp:
		sb.WriteString(t.Name)
	default:
		sb.WriteString(opNames[t.Op])
	}
	for _, a := range t.Args {
		sb.WriteByte(' ')
		sb.WriteString(ref(a))
	}
	sb.WriteByte(')')
	return sb.String()
}

// String renders the full tree (debugging, small terms, samples).
func (t *Term) String() string {
	return t.render(func(a *Term) string { return a.String() })
}

// ---------------------------------------------------------------- evaluation

// Model maps variable names to values: Bool/BV as uint64, FP as IEEE bits.
type Model map[string]uint64

// Eval evaluates t under m (absent variables read as 0). ok=false when the
// term contains something the evaluator does not interpret (UF, unspecified
// fp.to_sbv, ...).
func Eval(t *Term, m Model, memo map[*Term]uint64) (uint64, bool) {
	if v, ok := memo[t]; ok {
		return v, true
	}
	v, ok := eval1(t, m, memo)
	if ok {
		memo[t] = v
	}
	return v, ok
}

func b2u(v bool) uint64 {
	if v {
		return 1
	}
	return 0
}

func eval1(t *Term, m Model, memo map[*Term]uint64) (uint64, bool) {
	switch t.Op {
	case OVar:
		if t.Sort.K == KBV {
			return m[t.Name] & mask(t.Sort.W), true
		}
		return m[t.Name], true
	case OConst:
		return t.U, true
	case OApp:
		return 0, false
	case OAnd:
		x, ok := Eval(t.Args[0], m, memo)
		if ok && x == 0 {
			return 0, true
		}
		y, ok2 := Eval(t.Args[1], m, memo)
		if ok2 && y == 0 {
			return 0, true
		}
		return 1, ok && ok2
	case OOr:
		x, ok := Eval(t.Args[0], m, memo)
		if ok && x == 1 {
			return 1, true
		}
		y, ok2 := Eval(t.Args[1], m, memo)
		if ok2 && y == 1 {
			return 1, true
		}
		return 0, ok && ok2
	case OIte:
		c, ok := Eval(t.Args[0], m, memo)
		if !ok {
			return 0, false
		}
		if c == 1 {
			return Eval(t.Args[1], m, memo)
		}
		return Eval(t.Args[2], m, memo)
	}
	var a [3]uint64
	for i, x := range t.Args {
		v, ok := Eval(x, m, memo)
		if !ok {
			return 0, false
		}
		a[i] = v
	}
	f64 := math.Float64frombits
	switch t.Op {
	case ONot:
		return 1 - a[0], true
	case OEq:
		if t.Args[0].Sort.K == KFP64 {
			x, y := f64(a[0]), f64(a[1])
			if x != x && y != y {
				return 1, true
			}
		}
		return b2u(a[0] == a[1]), true
	case OBVAdd, OBVSub, OBVMul, OBVUDiv, OBVSDiv, OBVURem, OBVSRem, OBVAnd, OBVOr, OBVXor,
		OBVShl, OBVLshr, OBVAshr, OBVUlt, OBVUle, OBVSlt, OBVSle:
		return evalBVBin(t.Op, t.Args[0].Sort.W, a[0], a[1])
	case OBVNot:
		return ^a[0] & mask(t.Sort.W), true
	case OBVNeg:
		return -a[0] & mask(t.Sort.W), true
	case OExtract:
		return (a[0] >> uint(t.P2)) & mask(t.Sort.W), true
	case OZeroExt:
		return a[0], true
	case OSignExt:
		return uint64(sext(a[0], t.Args[0].Sort.W)) & mask(t.Sort.W), true
	case OConcat:
		return (a[0]<<uint(t.Args[1].Sort.W) | a[1]) & mask(t.Sort.W), true
	}
	if len(t.Args) > 0 && t.Args[0].Sort.K == KFP32 || t.Sort.K == KFP32 {
		return 0, false
	}
	switch t.Op {
	case OFPAdd:
		return math.Float64bits(f64(a[0]) + f64(a[1])), true
	case OFPSub:
		return math.Float64bits(f64(a[0]) - f64(a[1])), true
	case OFPMul:
		return math.Float64bits(f64(a[0]) * f64(a[1])), true
	case OFPDiv:
		return math.Float64bits(f64(a[0]) / f64(a[1])), true
	case OFPRem:
		return math.Float64bits(math.Remainder(f64(a[0]), f64(a[1]))), true
	case OFPNeg:
		return a[0] ^ (1 << 63), true
	case OFPAbs:
		return a[0] &^ (1 << 63), true
	case OFPSqrt:
		return math.Float64bits(math.Sqrt(f64(a[0]))), true
	case OFPRti:
		x := f64(a[0])
		switch t.P1 {
		case 0:
			return math.Float64bits(math.RoundToEven(x)), true
		case 1:
			return math.Float64bits(math.Floor(x)), true
		case 2:
			return math.Float64bits(math.Ceil(x)), true
		case 3:
			return math.Float64bits(math.Trunc(x)), true
		}
	case OFPLt:
		return b2u(f64(a[0]) < f64(a[1])), true
	case OFPLeq:
		return b2u(f64(a[0]) <= f64(a[1])), true
	case OFPEq:
		return b2u(f64(a[0]) == f64(a[1])), true
	case OFPIsNaN:
		x := f64(a[0])
		return b2u(x != x), true
	case OFPIsInf:
		return b2u(math.IsInf(f64(a[0]), 0)), true
	case OFPToSBV:
		x := f64(a[0])
		w := t.P1
		if x != x || math.IsInf(x, 0) {
			return 0, false
		}
		x = math.Trunc(x)
		lim := math.Ldexp(1, w-1)
		if x >= lim || x < -lim {
			return 0, false
		}
		return uint64(int64(x)) & mask(w), true
	case OFPToUBV:
		x := f64(a[0])
		w := t.P1
		if x != x || math.IsInf(x, 0) {
			return 0, false
		}
		x = math.Trunc(x)
		if x < 0 || x >= math.Ldexp(1, w) {
			return 0, false
		}
		return uint64(x) & mask(w), true
	case OSBVToFP:
		return math.Float64bits(float64(sext(a[0], t.Args[0].Sort.W))), true
	case OUBVToFP:
		return math.Float64bits(float64(a[0])), true
	case OBitsToFP:
		return a[0], true
	}
	return 0, false
}
