package smt

import (
	"bufio"
	"fmt"
	"io"
	"math"
	"os/exec"
	"strconv"
	"strings"
	"time"
)

type Result int

const (
	Unsat Result = iota
	Sat
	Unknown
)

func (r Result) String() string { return [...]string{"unsat", "sat", "unknown"}[r] }

// Solver is a long-lived `z3 -in` style process. One per worker.
type Solver struct {
	cmd       *exec.Cmd
	in        io.WriteCloser
	bw        *bufio.Writer
	out       *bufio.Reader
	lines     chan string
	Kills     int
	Bin       string
	Args      []string
	TimeoutMs int

	// per-scope bookkeeping: which terms have been defined in the solver
	defined    map[*Term]bool
	declUF     map[string]bool
	Queries    int
	Unknowns   int
	Errors     int
	Time       time.Duration
	Log        io.Writer // optional transcript
	LastError  string
	dead       bool
	restarting bool
}

func NewSolver(bin string, timeoutMs int) (*Solver, error) {
	s := &Solver{Bin: bin, TimeoutMs: timeoutMs}
	switch {
	case strings.Contains(bin, "cvc5"):
		s.Args = []string{"--incremental", "--lang=smt2", "--produce-models", fmt.Sprintf("--tlimit-per=%d", timeoutMs)}
	default:
		s.Args = []string{"-in"}
	}
	if err := s.start(); err != nil {
		return nil, err
	}
	return s, nil
}

func (s *Solver) start() error {
	s.cmd = exec.Command(s.Bin, s.Args...)
	in, err := s.cmd.StdinPipe()
	if err != nil {
		return err
	}
	out, err := s.cmd.StdoutPipe()
	if err != nil {
		return err
	}
	s.cmd.Stderr = nil
	if err := s.cmd.Start(); err != nil {
		return err
	}
	s.in = in
	s.bw = bufio.NewWriterSize(in, 1<<16)
	s.out = bufio.NewReaderSize(out, 1<<16)
	s.dead = false
	// reader goroutine: lets the engine enforce a hard wall-clock limit per
	// answer (z3's soft timeout does not interrupt every phase)
	lines := make(chan string, 64)
	s.lines = lines
	rd := s.out
	go func() {
		defer close(lines)
		for {
			line, err := rd.ReadString('\n')
			if err != nil {
				return
			}
			lines <- line
		}
	}()
	if !strings.Contains(s.Bin, "cvc5") {
		s.send(fmt.Sprintf("(set-option :timeout %d)", s.TimeoutMs))
		s.send("(set-option :model.completion true)")
	} else {
		s.send("(set-logic ALL)")
	}
	s.send("(push 1)")
	s.defined = map[*Term]bool{}
	s.declUF = map[string]bool{}
	return nil
}

func (s *Solver) Close() {
	if s.cmd != nil && s.cmd.Process != nil {
		s.in.Close()
		s.cmd.Process.Kill()
		s.cmd.Wait()
	}
}

func (s *Solver) send(line string) {
	if s.dead && !s.restarting {
		// restart with a clean context: definitions are re-sent lazily
		s.restarting = true
		s.Close()
		s.start()
		s.restarting = false
	}
	if s.Log != nil {
		fmt.Fprintln(s.Log, line)
	}
	if _, err := s.bw.WriteString(line + "\n"); err != nil {
		s.dead = true
	}
}

func (s *Solver) readLine() string {
	if s.dead {
		return "(error \"solver died\")"
	}
	if s.bw.Buffered() > 0 {
		if err := s.bw.Flush(); err != nil {
			s.dead = true
			return "(error \"solver died\")"
		}
	}
	limit := time.Duration(s.TimeoutMs)*time.Millisecond + 5*time.Second
	select {
	case line, ok := <-s.lines:
		if !ok {
			s.dead = true
			return "(error \"solver died\")"
		}
		line = strings.TrimSpace(line)
		if s.Log != nil {
			fmt.Fprintln(s.Log, "; <- "+line)
		}
		return line
	case <-time.After(limit):
		// hard limit exceeded: kill the process; the caller sees an
		// inconclusive answer and a fresh process is started on demand
		s.Kills++
		s.cmd.Process.Kill()
		s.dead = true
		return "(error \"solver killed after hard time limit\")"
	}
}

// Reset drops everything asserted/defined for the current path.
func (s *Solver) Reset() {
	if s.dead {
		s.Close()
		s.start()
		return
	}
	s.send("(pop 1)")
	s.send("(push 1)")
	s.defined = map[*Term]bool{}
	s.declUF = map[string]bool{}
}

// ref makes sure t is known to the solver (declared / defined as a named
// constant) and returns the text to refer to it.
func (s *Solver) ref(b *Builder, t *Term) string {
	switch t.Op {
	case OConst:
		return constString(t)
	case OVar:
		if !s.defined[t] {
			s.defined[t] = true
			s.send(fmt.Sprintf("(declare-const %s %s)", t.Name, t.Sort.String()))
		}
		return t.Name
	}
	name := "t" + strconv.Itoa(t.ID)
	if s.defined[t] {
		return name
	}
	// iterative post-order to avoid deep recursion on long chains
	type fr struct {
		t *Term
		i int
	}
	stack := []fr{{t, 0}}
	for len(stack) > 0 {
		top := &stack[len(stack)-1]
		if top.i < len(top.t.Args) {
			a := top.t.Args[top.i]
			top.i++
			if a.Op != OConst && !s.defined[a] {
				stack = append(stack, fr{a, 0})
			}
			continue
		}
		cur := top.t
		stack = stack[:len(stack)-1]
		if s.defined[cur] {
			continue
		}
		s.defined[cur] = true
		if cur.Op == OVar {
			s.send(fmt.Sprintf("(declare-const %s %s)", cur.Name, cur.Sort.String()))
			continue
		}
		if cur.Op == OApp && !s.declUF[cur.Name] {
			s.declUF[cur.Name] = true
			s.send(b.UFs[cur.Name])
		}
		body := cur.render(func(a *Term) string {
			switch a.Op {
			case OConst:
				return constString(a)
			case OVar:
				return a.Name
			}
			return "t" + strconv.Itoa(a.ID)
		})
		s.send(fmt.Sprintf("(define-fun t%d () %s %s)", cur.ID, cur.Sort.String(), body))
	}
	return name
}

// Assert adds t permanently (for the current path).
func (s *Solver) Assert(b *Builder, t *Term) {
	s.send("(assert " + s.ref(b, t) + ")")
}

func (s *Solver) checkSat() Result {
	s.Queries++
	t0 := time.Now()
	s.send("(check-sat)")
	var r Result
	sawError := false
	for {
		line := s.readLine()
		switch {
		case line == "sat":
			r = Sat
		case line == "unsat":
			r = Unsat
		case line == "unknown" || line == "timeout":
			r = Unknown
		case strings.HasPrefix(line, "(error"):
			// any error line makes the answer inconclusive (an earlier
			// command may have been dropped); the answer line still follows.
			s.Errors++
			sawError = true
			s.LastError = line
			if s.dead {
				s.Time += time.Since(t0)
				return Unknown
			}
			continue
		default:
			continue
		}
		break
	}
	if sawError {
		r = Unknown
	}
	if r == Unknown {
		s.Unknowns++
	}
	s.Time += time.Since(t0)
	return r
}

// Check decides satisfiability of (current assertions ∧ extra...).
// When sat and wantModel, the values of vars are returned.
func (s *Solver) Check(b *Builder, extra []*Term, wantModel bool, vars []*Term) (Result, Model) {
	refs := make([]string, len(extra))
	for i, e := range extra {
		refs[i] = s.ref(b, e)
	}
	if wantModel {
		for _, v := range vars {
			s.ref(b, v)
		}
	}
	if len(extra) > 0 {
		s.send("(push 1)")
		for _, r := range refs {
			s.send("(assert " + r + ")")
		}
	}
	r := s.checkSat()
	if s.dead {
		// killed by the watchdog (or crashed): start a fresh process now;
		// definitions are re-sent lazily
		s.Close()
		s.start()
		return Unknown, nil
	}
	var m Model
	if r == Sat && wantModel {
		m = s.getModel(vars)
	}
	if s.dead {
		s.Close()
		s.start()
		return Unknown, nil
	}
	if len(extra) > 0 {
		s.send("(pop 1)")
	}
	return r, m
}

func (s *Solver) getModel(vars []*Term) Model {
	m := Model{}
	if len(vars) == 0 {
		return m
	}
	var sb strings.Builder
	sb.WriteString("(get-value (")
	for _, v := range vars {
		sb.WriteString(v.Name)
		sb.WriteByte(' ')
	}
	sb.WriteString("))")
	s.send(sb.String())
	// read a balanced s-expression
	var txt strings.Builder
	depth := 0
	started := false
	for {
		line := s.readLine()
		if strings.HasPrefix(line, "(error") {
			s.Errors++
			return nil
		}
		txt.WriteString(line)
		txt.WriteByte(' ')
		for _, c := range line {
			if c == '(' {
				depth++
				started = true
			} else if c == ')' {
				depth--
			}
		}
		if started && depth <= 0 {
			break
		}
		if s.dead {
			return nil
		}
	}
	toks := tokenize(txt.String())
	sx, _ := parseSexp(toks, 0)
	lst, ok := sx.([]interface{})
	if !ok {
		return nil
	}
	byName := map[string]*Term{}
	for _, v := range vars {
		byName[v.Name] = v
	}
	for _, e := range lst {
		pair, ok := e.([]interface{})
		if !ok || len(pair) != 2 {
			continue
		}
		name, _ := pair[0].(string)
		v := byName[name]
		if v == nil {
			continue
		}
		if u, ok := parseValue(pair[1], v.Sort); ok {
			m[name] = u
		}
	}
	return m
}

func tokenize(s string) []string {
	var toks []string
	i := 0
	for i < len(s) {
		c := s[i]
		switch {
		case c == '(' || c == ')':
			toks = append(toks, string(c))
			i++
		case c == ' ' || c == '\t' || c == '\n' || c == '\r':
			i++
		default:
			j := i
			for j < len(s) && !strings.ContainsRune("() \t\n\r", rune(s[j])) {
				j++
			}
			toks = append(toks, s[i:j])
			i = j
		}
	}
	return toks
}

func parseSexp(toks []string, i int) (interface{}, int) {
	if i >= len(toks) {
		return nil, i
	}
	if toks[i] == "(" {
		var lst []interface{}
		i++
		for i < len(toks) && toks[i] != ")" {
			var e interface{}
			e, i = parseSexp(toks, i)
			lst = append(lst, e)
		}
		return lst, i + 1
	}
	return toks[i], i + 1
}

func parseBits(tok string) (uint64, int, bool) {
	if strings.HasPrefix(tok, "#x") {
		u, err := strconv.ParseUint(tok[2:], 16, 64)
		return u, 4 * (len(tok) - 2), err == nil
	}
	if strings.HasPrefix(tok, "#b") {
		u, err := strconv.ParseUint(tok[2:], 2, 64)
		return u, len(tok) - 2, err == nil
	}
	return 0, 0, false
}

func parseValue(x interface{}, sort Sort) (uint64, bool) {
	switch sort.K {
	case KBool:
		if s, ok := x.(string); ok {
			return b2u(s == "true"), true
		}
	case KBV:
		if s, ok := x.(string); ok {
			u, _, ok := parseBits(s)
			return u, ok
		}
		// (_ bv123 32)
		if l, ok := x.([]interface{}); ok && len(l) == 3 {
			if s, ok := l[1].(string); ok && strings.HasPrefix(s, "bv") {
				u, err := strconv.ParseUint(s[2:], 10, 64)
				return u, err == nil
			}
		}
	case KFP64, KFP32:
		l, ok := x.([]interface{})
		if !ok {
			return 0, false
		}
		eb, sb := 11, 52
		if sort.K == KFP32 {
			eb, sb = 8, 23
		}
		if len(l) == 4 {
			if h, _ := l[0].(string); h == "fp" {
				sg, _, ok1 := parseBits(l[1].(string))
				ex, _, ok2 := parseBits(l[2].(string))
				mn, _, ok3 := parseBits(l[3].(string))
				if ok1 && ok2 && ok3 {
					return sg<<uint(eb+sb) | ex<<uint(sb) | mn, true
				}
			}
			if h, _ := l[0].(string); h == "_" {
				kind, _ := l[1].(string)
				var f float64
				switch kind {
				case "NaN":
					f = math.NaN()
				case "+oo":
					f = math.Inf(1)
				case "-oo":
					f = math.Inf(-1)
				case "+zero":
					f = 0
				case "-zero":
					f = math.Copysign(0, -1)
				default:
					return 0, false
				}
				if sort.K == KFP32 {
					return uint64(math.Float32bits(float32(f))), true
				}
				return math.Float64bits(f), true
			}
		}
	}
	return 0, false
}
