// Package c08: method calls and objects bind arguments, receivers and results correctly.
package c08

import (
	"fmt"
	"strings"

	"github.com/DemoHn/Zn/pkg/exec"
	r "github.com/DemoHn/Zn/pkg/runtime"
	"github.com/DemoHn/Zn/pkg/value"
	"zsym/zv"
)

var trace []float64

func install() {
	trace = nil
	exec.GlobalValues["显示"] = value.NewFunction(func(receiver r.Element, params []r.Element) (r.Element, error) {
		for _, p := range params {
			if n, ok := p.(*value.Number); ok {
				trace = append(trace, n.GetValue())
			}
		}
		return value.NewNull(), nil
	})
}

func run(src string, in r.ElementMap) (res r.Element, err error, p interface{}) {
	defer func() { p = recover() }()
	install()
	res, err = exec.NewInterpreter("v").LoadScript([]rune(src)).Execute(in)
	return
}

func isNum(e r.Element, want float64) bool {
	n, ok := e.(*value.Number)
	return ok && zv.SameFloat(n.GetValue(), want)
}

func sameTrace(want ...float64) bool {
	if len(trace) != len(want) {
		return false
	}
	for k := range want {
		if !zv.SameFloat(trace[k], want[k]) {
			return false
		}
	}
	return true
}

// H_ArgsBinding: arguments are evaluated once, left to right, and bound in order.
func H_ArgsBinding() {
	a, b, c := zv.Float64("A"), zv.Float64("B"), zv.Float64("C")
	src := "输入A、B、C\n如何记？\n    输入V\n    （显示：V）\n    输出 V\n如何F？\n    输入X、Y、Z\n    输出 X - Y * Z\n输出（F：（记：A）、（记：B）、（记：C））"
	res, err, p := run(src, r.ElementMap{"A": value.NewNumber(a), "B": value.NewNumber(b), "C": value.NewNumber(c)})
	zv.Assert(p == nil && err == nil, "call runs")
	zv.Assert(sameTrace(a, b, c), "arguments are evaluated once, left to right")
	zv.Assert(isNum(res, a-b*c), "arguments are bound to the declared inputs in order; the call yields the 输出 value")
}

// H_CountMismatch: supplying k arguments to a method declaring n inputs is an
// error exactly when k != n, and then none of the body runs.
func H_CountMismatch() {
	n := zv.Choose(4)
	k := zv.Choose(4)
	var ins, args []string
	for j := 0; j < n; j++ {
		ins = append(ins, fmt.Sprintf("P%d", j+1))
	}
	x := zv.Float64("X")
	for j := 0; j < k; j++ {
		args = append(args, "X")
	}
	src := "输入X\n如何F？\n"
	if n > 0 {
		src += "    输入" + strings.Join(ins, "、") + "\n"
	}
	src += "    （显示：7）\n    输出 5\n"
	call := "（F）"
	if k > 0 {
		call = "（F：" + strings.Join(args, "、") + "）"
	}
	form := zv.Choose(2)
	if form == 0 {
		src += "输出" + call
	} else {
		src += call + "，得到R\n输出 R"
	}
	res, err, p := run(src, r.ElementMap{"X": value.NewNumber(x)})
	zv.Assert(p == nil, "count mismatch: no panic")
	if n != k {
		zv.Reach("mismatch")
		zv.Assert(err != nil, "argument count mismatch is an error")
		zv.Assert(len(trace) == 0, "argument count mismatch runs none of the body")
		return
	}
	zv.Reach("match")
	zv.Assert(err == nil && isNum(res, 5) && sameTrace(7), "matching count runs the body once")
}

// H_Recursion: recursion to symbolic depth.
func H_Recursion() {
	D := 6
	if zv.Tier() == 1 {
		D = 12
	}
	n := zv.Int("N", 0, D)
	for k := 0; k <= D; k++ {
		if n == k {
			n = k // the depth is fixed on this path (one path per depth)
			break
		}
	}
	src := "输入N\n如何和？\n    输入K\n    如果 K == 0：\n        输出 0\n    令M = K\n    令S = （和：K - 1）\n    输出 M + S\n输出（和：N）"
	res, err, p := run(src, r.ElementMap{"N": value.NewNumber(float64(n))})
	zv.Assert(p == nil && err == nil, "recursion runs")
	zv.Assert(isNum(res, float64(n*(n+1)/2)), "recursion yields the right value (each call has its own inputs and locals)")
}

// H_YieldAndChain: 得到 binds the result; chained calls feed each result to the next.
func H_YieldAndChain() {
	a, b := zv.Float64("A"), zv.Float64("B")
	in := r.ElementMap{"A": value.NewNumber(a), "B": value.NewNumber(b)}
	switch zv.Choose(4) {
	case 0:
		res, err, p := run("输入A、B\n如何F？\n    输入X\n    输出 X + 1\n（F：A），得到R\n输出 R * B", in)
		zv.Assert(p == nil && err == nil && isNum(res, (a+1)*b), "得到 binds the callee's 输出 value")
	case 1:
		res, err, p := run("输入A、B\n输出 以5（加：A）、（乘：B）", in)
		zv.Assert(p == nil && err == nil && isNum(res, (5+a)*b), "chained calls feed each result to the next call")
	case 2:
		res, err, p := run("输入A、B\n以5（加：A）、（乘：B），得到R\n输出 R", in)
		zv.Assert(p == nil && err == nil && isNum(res, (5+a)*b), "chained call with 得到")
	default:
		res, err, p := run("输入A、B\n如何平方？\n    输入X\n    输出 X * X\n如何四次方？\n    输入Y\n    令S = （平方：Y）\n    输出（平方：S）\n输出（四次方：A）", in)
		zv.Assert(p == nil && err == nil && isNum(res, (a*a)*(a*a)), "methods calling methods")
	}
}

const classT = "定义T：\n    其甲设为1\n    其表设为【】\n    如何增？\n        输入D\n        其甲 = 其甲 + D\n        输出 其甲\n    如何双增？\n        输入D\n        以此（增：D）\n        输出 以此（增：D）\n    如何记？\n        输入V\n        以其表（后增：V）\n        输出 其表\n如何新建T？\n    输入P\n    其甲 = P\n"

// H_Objects: 新建, constructor arguments, 其, per-object state.
func H_Objects() {
	a, b := zv.Float64("A"), zv.Float64("B")
	in := r.ElementMap{"A": value.NewNumber(a), "B": value.NewNumber(b)}
	switch zv.Choose(7) {
	case 0:
		res, err, p := run("输入A、B\n"+classT+"令O = （新建T：A）\n输出 O之甲", in)
		zv.Assert(p == nil && err == nil && isNum(res, a), "the constructor initialises the object with the call's arguments")
	case 1:
		res, err, p := run("输入A、B\n"+classT+"令O = （新建T：A）\n输出 以O（双增：B）", in)
		zv.Assert(p == nil && err == nil && isNum(res, a+b+b), "其 denotes the receiving object in methods calling methods")
	case 2:
		res, err, p := run("输入A、B\n"+classT+"令O = （新建T：A）\n令Q = （新建T：B）\n以O（增：1）\n输出 Q之甲", in)
		zv.Assert(p == nil && err == nil && isNum(res, b), "a property write on one object does not affect another")
	case 3:
		res, err, p := run("输入A、B\n"+classT+"令O = （新建T：A）\n令Q = （新建T：B）\n以O（记：A）\n输出 以Q（记：B）", in)
		zv.Assert(p == nil && err == nil, "per-object defaults run")
		arr, ok := res.(*value.Array)
		zv.Assert(ok && arr.Length() == 1 && isNum(arr.GetValue()[0], b), "each object starts from its own copy of the default properties")
	case 4:
		_, err, p := run("输入A、B\n"+classT+"令O = （新建T：A）\n输出 O之乙", in)
		zv.Assert(p == nil && err != nil, "an unknown property is an error")
	case 5:
		_, err, p := run("输入A、B\n"+classT+"令O = （新建T：A）\n输出 以O（无此方法：B）", in)
		zv.Assert(p == nil && err != nil, "an unknown method is an error")
	default:
		_, err, p := run("输入A、B\n"+classT+"令O = （新建T：A、B）\n输出 O之甲", in)
		zv.Assert(p == nil && err != nil, "constructor argument count mismatch is an error")
	}
}

const classNode = "定义节点：\n    其号 = 0\n    其值 = 0\n    其下家 = 空\n" +
	"    如何爆？\n        令无用 = 以“abc”（取样：0、1）\n" +
	"    如何传一？\n        以其下家（爆）\n" +
	"    如何传二？\n        以其下家（传一）\n" +
	"    如何探零？\n        以其下家（爆）\n        拦截异常：\n            输出 100\n" +
	"    如何探一？\n        以其下家（传一）\n        拦截异常：\n            输出 100\n" +
	"    如何探二？\n        以其下家（传二）\n        拦截异常：\n            输出 100\n" +
	"    如何重抛？\n        以其下家（爆）\n        拦截异常：\n            抛出异常：“再”！\n" +
	"    如何外拦？\n        以其下家（重抛）\n        拦截异常：\n            输出 100\n" +
	"    如何账三？\n        输入D\n        令R = 以其下家（外拦）\n        其值 = 其值 + D\n        输出 其号 + R\n" +
	"    如何账零？\n        输入D\n        令R = 以其下家（探零）\n        其值 = 其值 + D\n        输出 其号 + R\n" +
	"    如何账一？\n        输入D\n        令R = 以其下家（探一）\n        其值 = 其值 + D\n        输出 其号 + R\n" +
	"    如何账二？\n        输入D\n        令R = 以其下家（探二）\n        其值 = 其值 + D\n        输出 其号 + R\n" +
	"如何新建节点？\n    输入号、下家\n    其号 = 号\n    其下家 = 下家\n" +
	"令戊 = （新建节点：5、空）\n令丁 = （新建节点：4、戊）\n令丙 = （新建节点：3、丁）\n令乙 = （新建节点：2、丙）\n令甲 = （新建节点：1、乙）\n"

// H_ReceiverAfterIntercept: after an exception raised 1, 2 or 3 calls below an
// intercepting method, 其 in the callers still denotes each caller's own receiver.
func H_ReceiverAfterIntercept() {
	a := zv.Float64("A")
	in := r.ElementMap{"A": value.NewNumber(a)}
	var call string
	const want = 101.0
	switch zv.Choose(4) {
	case 0:
		call = "以甲（账零：A）"
	case 1:
		call = "以甲（账一：A）"
	case 2:
		call = "以甲（账二：A）"
	default:
		call = "以甲（账三：A）" // the inner handler raises again, an outer one intercepts
	}
	src := "输入A\n" + classNode + call + "，得到谁\n"
	probe := zv.Choose(6)
	switch probe {
	case 0:
		src += "输出 谁"
	case 1:
		src += "输出 甲之值"
	case 2:
		src += "输出 乙之值"
	case 3:
		src += "输出 丙之值"
	case 4:
		src += "输出 丁之值"
	default:
		src += "输出 甲之号 * 10000 + 乙之号 * 1000 + 丙之号 * 100 + 丁之号 * 10 + 戊之号"
	}
	res, err, p := run(src, in)
	zv.Assert(p == nil && err == nil, "intercepted nested failure: the program runs")
	switch probe {
	case 0:
		zv.Assert(isNum(res, want), "其 after an intercepted nested failure still denotes the method's own receiver (result)")
	case 1:
		zv.Assert(isNum(res, 0+a), "其 after an intercepted nested failure still denotes the method's own receiver (property write)")
	case 2, 3, 4:
		zv.Assert(isNum(res, 0), "an intercepted nested failure does not redirect property writes to another object")
	default:
		zv.Assert(isNum(res, 12345), "objects keep their own properties after an intercepted nested failure")
	}
}

const classD = "定义T：\n    其数设为0\n    其字设为“甲”\n    其典设为【子 = 1】\n    其表设为【1】\n    如何动？\n        输入D\n        以其数（自增：D）\n        以其典（写入：“丑”、D）\n        以其表（后增：D）\n        输出 0\n"

// H_DefaultsPerObject: every object gets its own copy of each default
// property - number, text, dictionary, list - also when a property is changed
// in place (自增, 写入, 后增) instead of being assigned.
func H_DefaultsPerObject() {
	d := zv.Float64("D")
	zv.Assume(d == d && d-d == 0 && d != 0)
	order := zv.Choose(2) // second object created before / after the change
	probe := zv.Choose(4)
	src := "输入D\n" + classD + "令甲 = （新建T）\n"
	if order == 0 {
		src += "令乙 = （新建T）\n以甲（动：D）\n"
	} else {
		src += "以甲（动：D）\n令乙 = （新建T）\n"
	}
	switch probe {
	case 0:
		src += "输出 乙之数"
	case 1:
		src += "输出 乙之典之数目"
	case 2:
		src += "输出 乙之表之长度"
	default:
		src += "输出 甲之数"
	}
	res, err, p := run(src, r.ElementMap{"D": value.NewNumber(d)})
	zv.Assert(p == nil && err == nil, "defaults per object: runs\n"+src)
	switch probe {
	case 0:
		zv.Assert(isNum(res, 0), "a numeric default changed in place through one object is unchanged in another")
	case 1, 2:
		zv.Assert(isNum(res, 1), "a dictionary / list default changed in place through one object is unchanged in another")
	default:
		zv.Assert(isNum(res, 0+d), "the object itself sees its change")
	}
}

// W_Witness: vacuity guard.
func W_Witness() {
	a := zv.Float64("A")
	res, _, _ := run("输入A\n如何F？\n    输入X\n    输出 X + 1\n输出（F：A）", r.ElementMap{"A": value.NewNumber(a)})
	zv.Assert(isNum(res, a), "witness")
}
