// Package c12: lists are 1-indexed sequences, dictionaries insertion-ordered maps.
package c12

import (
	"math"

	"github.com/DemoHn/Zn/pkg/exec"
	r "github.com/DemoHn/Zn/pkg/runtime"
	"github.com/DemoHn/Zn/pkg/value"
	"zsym/zv"
)

func maxLen() int {
	if zv.Tier() == 1 {
		return 4
	}
	return 3
}

// ---------------------------------------------------------------- lists

func mkList() ([]float64, *value.Array) {
	n := zv.Choose(maxLen() + 1)
	model := make([]float64, n)
	items := make([]r.Element, n)
	for k := 0; k < n; k++ {
		model[k] = zv.Float64("e")
		items[k] = value.NewNumber(model[k])
	}
	return model, value.NewArray(items)
}

func listIs(a *value.Array, model []float64) bool {
	v := a.GetValue()
	if len(v) != len(model) {
		return false
	}
	for k := range v {
		n, ok := v[k].(*value.Number)
		if !ok || !zv.SameFloat(n.GetValue(), model[k]) {
			return false
		}
	}
	return true
}

func isNum(e r.Element, want float64) bool {
	n, ok := e.(*value.Number)
	return ok && zv.SameFloat(n.GetValue(), want)
}

func run(src string, in r.ElementMap) (res r.Element, err error, p interface{}) {
	defer func() { p = recover() }()
	res, err = exec.NewInterpreter("v").LoadScript([]rune(src)).Execute(in)
	return
}

// symbolic integral position (any double that is a whole number, infinities included)
func position(name string) float64 {
	f := zv.Float64(name)
	zv.Assume(f == math.Floor(f))
	return f
}

func inRange(f float64, n int) bool { return f >= 1 && f <= float64(n) }

// H_List_Index: A#I and A#I = V through the real evaluator.
func H_List_Index() {
	model, arr := mkList()
	i := position("i")
	if zv.Choose(2) == 0 {
		res, err, p := run("输入A、I\n输出 A#I", r.ElementMap{"A": arr, "I": value.NewNumber(i)})
		zv.Assert(p == nil, "read: no panic")
		if inRange(i, len(model)) {
			zv.Reach("read-hit")
			zv.Assert(err == nil, "read inside 1..length succeeds")
			zv.Assert(isNum(res, model[int(i)-1]), "read returns the element at that position")
		} else {
			zv.Reach("read-miss")
			zv.Assert(err != nil, "read outside 1..length is an error")
		}
		zv.Assert(listIs(arr, model), "read leaves the list unchanged")
		return
	}
	v := zv.Float64("v")
	res, err, p := run("输入A、I、V\nA#I = V\n输出 A#I", r.ElementMap{"A": arr, "I": value.NewNumber(i), "V": value.NewNumber(v)})
	zv.Assert(p == nil, "write: no panic")
	if inRange(i, len(model)) {
		zv.Reach("write-hit")
		zv.Assert(err == nil, "write inside 1..length succeeds")
		zv.Assert(isNum(res, v), "a read returns the last value written")
		model[int(i)-1] = v
		zv.Assert(listIs(arr, model), "write changes exactly that position")
	} else {
		zv.Reach("write-miss")
		zv.Assert(err != nil, "write outside 1..length is an error")
		zv.Assert(listIs(arr, model), "rejected write leaves the list unchanged")
	}
}

func method(a r.Element, name string, args ...r.Element) (res r.Element, err error, p interface{}) {
	defer func() { p = recover() }()
	res, err = a.ExecMethod(name, args)
	return
}

func getter(a r.Element, name string) (res r.Element, err error, p interface{}) {
	defer func() { p = recover() }()
	res, err = a.GetProperty(name)
	return
}

func isNull(e r.Element) bool { _, ok := e.(*value.Null); return ok }

// H_List_Methods: one operation from an arbitrary list state vs. the sequence model.
func H_List_Methods() {
	model, arr := mkList()
	n := len(model)
	x := zv.Float64("x")
	switch zv.Choose(11) {
	case 0: // 后增 then 末项
		_, err, p := method(arr, "后增", value.NewNumber(x))
		zv.Assert(p == nil && err == nil, "后增 succeeds")
		zv.Assert(listIs(arr, append(append([]float64{}, model...), x)), "后增 appends")
		last, _, _ := getter(arr, "末项")
		zv.Assert(isNum(last, x), "后增 then 末项 returns the element")
		l, _, _ := getter(arr, "长度")
		zv.Assert(isNum(l, float64(n+1)), "length grows by one")
	case 1: // 前增
		_, err, p := method(arr, "前增", value.NewNumber(x))
		zv.Assert(p == nil && err == nil, "前增 succeeds")
		zv.Assert(listIs(arr, append([]float64{x}, model...)), "前增 prepends")
		first, _, _ := getter(arr, "首项")
		zv.Assert(isNum(first, x), "前增 then 首项 returns the element")
	case 2: // 左移
		res, err, p := method(arr, "左移")
		zv.Assert(p == nil && err == nil, "左移 succeeds")
		if n == 0 {
			zv.Assert(isNull(res), "左移 on an empty list yields 空")
			zv.Assert(listIs(arr, model), "左移 on empty leaves it empty")
		} else {
			zv.Assert(isNum(res, model[0]), "左移 returns the first element")
			zv.Assert(listIs(arr, model[1:]), "左移 removes the first element")
		}
	case 3: // 右移
		res, err, p := method(arr, "右移")
		zv.Assert(p == nil && err == nil, "右移 succeeds")
		if n == 0 {
			zv.Assert(isNull(res), "右移 on an empty list yields 空")
		} else {
			zv.Assert(isNum(res, model[n-1]), "右移 returns the last element")
			zv.Assert(listIs(arr, model[:n-1]), "右移 removes the last element")
		}
	case 4: // 交换
		i, j := position("i"), position("j")
		_, err, p := method(arr, "交换", value.NewNumber(i), value.NewNumber(j))
		zv.Assert(p == nil, "交换: no panic")
		if inRange(i, n) && inRange(j, n) {
			zv.Assert(err == nil, "交换 inside the list succeeds")
			model[int(i)-1], model[int(j)-1] = model[int(j)-1], model[int(i)-1]
			zv.Assert(listIs(arr, model), "交换 swaps the two positions")
		} else {
			zv.Assert(err != nil, "交换 outside 1..length is an error")
			zv.Assert(listIs(arr, model), "rejected 交换 leaves the list unchanged")
		}
	case 5: // 逆序 twice
		rev, err, p := getter(arr, "逆序")
		zv.Assert(p == nil && err == nil, "逆序 succeeds")
		ra, ok := rev.(*value.Array)
		zv.Assert(ok, "逆序 yields a list")
		want := make([]float64, n)
		for k := range model {
			want[n-1-k] = model[k]
		}
		zv.Assert(listIs(ra, want), "逆序 reverses")
		rev2, _, _ := getter(ra, "逆序")
		zv.Assert(listIs(rev2.(*value.Array), model), "逆序 twice is the identity")
		zv.Assert(listIs(arr, model), "逆序 does not change the receiver")
	case 6: // 合并 with 0..2 arguments, each a fresh list or the receiver itself
		k := zv.Choose(3)
		want := append([]float64{}, model...)
		var args []r.Element
		var fresh []*value.Array
		var freshModel [][]float64
		for j := 0; j < k; j++ {
			if zv.Choose(2) == 1 {
				args = append(args, arr) // aliasing: the list is merged with itself
				want = append(want, model...)
			} else {
				m2, a2 := mkList()
				args = append(args, a2)
				fresh = append(fresh, a2)
				freshModel = append(freshModel, m2)
				want = append(want, m2...)
			}
		}
		res, err, p := method(arr, "合并", args...)
		zv.Assert(p == nil && err == nil, "合并 succeeds")
		ra, ok := res.(*value.Array)
		zv.Assert(ok, "合并 yields a list")
		zv.Assert(listIs(ra, want), "合并 concatenates the receiver and its arguments as they were before the call")
		for j := range fresh {
			zv.Assert(listIs(fresh[j], freshModel[j]), "合并 leaves its argument unchanged")
		}
	case 7: // 包含 / 寻找 consistency
		zv.Assume(x == x)
		for _, e := range model {
			zv.Assume(e == e)
		}
		c, err, p := method(arr, "包含", value.NewNumber(x))
		zv.Assert(p == nil && err == nil, "包含 succeeds")
		want := false
		for _, e := range model {
			if e == x {
				want = true
			}
		}
		cb, ok := c.(*value.Bool)
		zv.Assert(ok && cb.GetValue() == want, "包含 iff some element equals the value")
		f, err2, p2 := method(arr, "寻找", value.NewNumber(x))
		zv.Assert(p2 == nil && err2 == nil, "寻找 succeeds")
		fn, ok2 := f.(*value.Number)
		zv.Assert(ok2, "寻找 yields a number")
		zv.Assert((fn.GetValue() >= 0) == want || (fn.GetValue() > 0) == want, "寻找 finds something iff 包含")
	case 8: // 首项 / 末项 / 长度
		l, _, p := getter(arr, "长度")
		zv.Assert(p == nil && isNum(l, float64(n)), "长度 is the number of stored elements")
		if n > 0 {
			f, _, _ := getter(arr, "首项")
			zv.Assert(isNum(f, model[0]), "首项 is the first element")
			e, _, _ := getter(arr, "末项")
			zv.Assert(isNum(e, model[n-1]), "末项 is the last element")
		}
	case 9: // iteration order with 1-based indices
		res, err, p := run("输入A\n令S = 【】\n令T = 【】\n以I、V遍历A：\n    以S（后增：V）\n    以T（后增：I）\n输出 【S，T】", r.ElementMap{"A": arr})
		zv.Assert(p == nil && err == nil, "遍历 runs")
		ra, ok := res.(*value.Array)
		zv.Assert(ok && ra.Length() == 2, "遍历 result")
		zv.Assert(listIs(ra.GetValue()[0].(*value.Array), model), "遍历 visits the elements in order")
		idx := make([]float64, n)
		for k := range idx {
			idx[k] = float64(k + 1)
		}
		zv.Assert(listIs(ra.GetValue()[1].(*value.Array), idx), "遍历 indices are 1-based")
	default: // copy
		cp := value.DuplicateValue(arr)
		ca, ok := cp.(*value.Array)
		zv.Assert(ok && listIs(ca, model), "a copy has the same elements")
		method(ca, "后增", value.NewNumber(x))
		zv.Assert(listIs(arr, model), "changing the copy leaves the original unchanged")
	}
	zv.Reach("done")
}

// H_Declarations: names declared together (令甲、乙 = …) each hold a list /
// dictionary of their own: an operation through one name follows the sequence
// model and leaves the other name's collection as it was.
func H_Declarations() {
	x := zv.Float64("x")
	ops := []string{"以甲（后增：X）", "以甲（前增：X）", "以甲（左移）", "以甲（右移）", "甲#1 = X", "以甲（交换：1、2）"}
	op := ops[zv.Choose(len(ops))]
	decl := []string{"令甲、乙 = 【1，2，3】", "令甲、乙 设为 【1，2，3】", "令乙、甲 = 【1，2，3】"}[zv.Choose(3)]
	res, err, p := run("输入X\n"+decl+"\n"+op+"\n输出 乙", r.ElementMap{"X": value.NewNumber(x)})
	zv.Assert(p == nil && err == nil, "declaration of two names: runs")
	arr, ok := res.(*value.Array)
	zv.Assert(ok && listIs(arr, []float64{1, 2, 3}), "an operation through one of two names declared together leaves the other name's list unchanged")
	dres, derr, dp := run("输入X\n令甲、乙 = 【子 = 1，丑 = 2】\n以甲（写入：“寅”、X）\n以甲（移除：“子”）\n输出 【乙之数目，乙之所有索引#1】", r.ElementMap{"X": value.NewNumber(x)})
	zv.Assert(dp == nil && derr == nil, "declaration of two dictionaries: runs")
	da, ok2 := dres.(*value.Array)
	zv.Assert(ok2 && da.Length() == 2 && isNum(da.GetValue()[0], 2), "the other name's dictionary keeps its entries")
	k0, ok3 := da.GetValue()[1].(*value.String)
	zv.Assert(ok3 && k0.GetValue() == "子", "the other name's dictionary keeps its key order")
	zv.Reach("done")
}

// H_DictNullValues: a key that holds 空 is a key like any other: 移除 removes
// it, the number of entries shrinks, writing it again appends it at the end.
func H_DictNullValues() {
	x := zv.Float64("x")
	setup := []string{
		"令D = 【子 = 空，丑 = X，寅 = 3】",
		"令D = 【子 = 1，丑 = X，寅 = 3】\nD#“子” = 空",
		"令D = 【子 = 1，丑 = X，寅 = 3】\n以D（写入：“子”、空）",
		"令D = 【丑 = X，子 = 空，寅 = 3】",
	}[zv.Choose(4)]
	probe := zv.Choose(3)
	src := "输入X\n" + setup + "\n以D（移除：“子”）\n"
	switch probe {
	case 0:
		src += "输出 D之数目"
	case 1:
		src += "令K = D之所有索引\n输出 {K#1 为 “丑”} 且 {K#2 为 “寅”}"
	default:
		src += "以D（写入：“子”、5）\n令K = D之所有索引\n输出 K#3 为 “子”"
	}
	res, err, p := run(src, r.ElementMap{"X": value.NewNumber(x)})
	zv.Assert(p == nil && err == nil, "null values: runs\n"+src)
	if probe == 0 {
		zv.Assert(isNum(res, 2), "移除 of a key that holds 空 removes the entry")
	} else {
		b, ok := res.(*value.Bool)
		zv.Assert(ok && b.GetValue(), "after 移除 of a key that holds 空 the key order is that of the remaining keys (a re-inserted key goes to the end)\n"+src)
	}
	zv.Reach("done")
}

// ---------------------------------------------------------------- dictionaries

var keyPool = []string{"甲", "乙", "丙"}

type pair struct {
	k string
	v float64
}

func modelSet(m []pair, k string, v float64) []pair {
	for i := range m {
		if m[i].k == k {
			m[i].v = v
			return m
		}
	}
	return append(m, pair{k, v})
}

func modelDel(m []pair, k string) []pair {
	for i := range m {
		if m[i].k == k {
			return append(append([]pair{}, m[:i]...), m[i+1:]...)
		}
	}
	return m
}

func modelGet(m []pair, k string) (float64, bool) {
	for _, p := range m {
		if p.k == k {
			return p.v, true
		}
	}
	return 0, false
}

// mkDict builds a dictionary through the constructor from up to 3 pairs with
// keys chosen (duplicates allowed) in any order: every valid state is reachable.
func mkDict() ([]pair, *value.HashMap) {
	n := zv.Choose(maxLen() + 1)
	var model []pair
	var kv []value.KVPair
	for i := 0; i < n; i++ {
		k := keyPool[zv.Choose(len(keyPool))]
		v := zv.Float64("d")
		model = modelSet(model, k, v)
		kv = append(kv, value.KVPair{Key: k, Value: value.NewNumber(v)})
	}
	return model, value.NewHashMap(kv)
}

func dictIs(hm *value.HashMap, model []pair) bool {
	order := hm.GetKeyOrder()
	vals := hm.GetValue()
	if len(order) != len(model) || len(vals) != len(model) {
		return false
	}
	for i, p := range model {
		if order[i] != p.k {
			return false
		}
		e, ok := vals[p.k]
		if !ok || !isNum(e, p.v) {
			return false
		}
	}
	return true
}

// H_Dict: one operation from an arbitrary dictionary state vs. the ordered-map model.
func H_Dict() {
	model, hm := mkDict()
	zv.Assert(dictIs(hm, model), "construction: first occurrence fixes the place, last value wins")
	// from here on every `range` over a Go map runs in an order chosen by the
	// engine: insertion order must not be derived from Go's map order
	zv.SetMapOrder(1)
	defer zv.SetMapOrder(0)
	k := keyPool[zv.Choose(len(keyPool))]
	x := zv.Float64("x")
	switch zv.Choose(7) {
	case 0: // keyed read through the evaluator
		res, err, p := run("输入D、K\n输出 D#K", r.ElementMap{"D": hm, "K": value.NewString(k)})
		zv.Assert(p == nil, "read: no panic")
		if v, ok := modelGet(model, k); ok {
			zv.Assert(err == nil && isNum(res, v), "a read returns the last value written under the key")
		} else {
			zv.Assert(err != nil, "reading a missing key is an error")
		}
		zv.Assert(dictIs(hm, model), "read leaves the dictionary unchanged")
	case 1: // keyed write through the evaluator
		_, err, p := run("输入D、K、V\nD#K = V\n输出 D", r.ElementMap{"D": hm, "K": value.NewString(k), "V": value.NewNumber(x)})
		zv.Assert(p == nil && err == nil, "write succeeds (a new key is inserted)")
		zv.Assert(dictIs(hm, modelSet(model, k, x)), "overwriting keeps the place, a new key is appended")
	case 2: // 写入 / 读取
		_, err, p := method(hm, "写入", value.NewString(k), value.NewNumber(x))
		zv.Assert(p == nil && err == nil, "写入 succeeds")
		model = modelSet(model, k, x)
		zv.Assert(dictIs(hm, model), "写入 follows the ordered-map model")
		g, err2, p2 := method(hm, "读取", value.NewString(k))
		zv.Assert(p2 == nil && err2 == nil && isNum(g, x), "读取 returns the value written")
	case 3: // 移除 then re-insert appends
		_, err, p := method(hm, "移除", value.NewString(k))
		zv.Assert(p == nil && err == nil, "移除 succeeds")
		model = modelDel(model, k)
		zv.Assert(dictIs(hm, model), "移除 removes exactly that key, order of the rest kept")
		method(hm, "写入", value.NewString(k), value.NewNumber(x))
		zv.Assert(dictIs(hm, append(model, pair{k, x})), "re-inserting a removed key appends it")
	case 4: // 所有索引 / 所有值 / 长度
		ks, _, p := getter(hm, "所有索引")
		vs, _, p2 := getter(hm, "所有值")
		l, _, p3 := getter(hm, "长度")
		zv.Assert(p == nil && p2 == nil && p3 == nil, "getters: no panic")
		zv.Assert(isNum(l, float64(len(model))), "长度 is the number of entries")
		ka, vaOK := ks.(*value.Array)
		va, vaOK2 := vs.(*value.Array)
		zv.Assert(vaOK && vaOK2 && ka.Length() == len(model) && va.Length() == len(model), "所有索引/所有值 list every entry")
		for i, p := range model {
			s, ok := ka.GetValue()[i].(*value.String)
			zv.Assert(ok && s.GetValue() == p.k, "所有索引 follows insertion order")
			zv.Assert(isNum(va.GetValue()[i], p.v), "所有值 follows insertion order")
		}
	case 5: // iteration order
		res, err, p := run("输入D\n令S = 【】\n以K、V遍历D：\n    以S（后增：V）\n输出 S", r.ElementMap{"D": hm})
		zv.Assert(p == nil && err == nil, "遍历 runs")
		ra, ok := res.(*value.Array)
		zv.Assert(ok && ra.Length() == len(model), "遍历 visits every entry once")
		for i, p := range model {
			zv.Assert(isNum(ra.GetValue()[i], p.v), "遍历 follows insertion order")
		}
	default: // copy
		cp := value.DuplicateValue(hm)
		ch, ok := cp.(*value.HashMap)
		zv.Assert(ok && dictIs(ch, model), "a copy has the same entries in the same order")
		method(ch, "写入", value.NewString(k), value.NewNumber(x))
		zv.Assert(dictIs(hm, model), "changing the copy leaves the original unchanged")
	}
	zv.Reach("done")
}

// W_List_Witness: vacuity guard.
func W_List_Witness() {
	model, arr := mkList()
	method(arr, "后增", value.NewNumber(1))
	zv.Assert(listIs(arr, model), "witness")
}
