// Package c18: errors point at the line and call chain where they arose.
package c18

import (
	"fmt"
	"strings"

	"github.com/DemoHn/Zn/pkg/exec"
	r "github.com/DemoHn/Zn/pkg/runtime"
	"github.com/DemoHn/Zn/pkg/syntax"
	"github.com/DemoHn/Zn/pkg/syntax/zh"
	"github.com/DemoHn/Zn/pkg/value"
	"zsym/zv"
)

// ---------------------------------------------------------------- program builder that tracks physical line numbers

type builder struct {
	lines []string
}

func (b *builder) add(s string) int { // returns the 1-based line number
	b.lines = append(b.lines, s)
	return len(b.lines)
}

func (b *builder) source(eol string) string { return strings.Join(b.lines, eol) }

// preamble: multi-line tokens in front of the program (they count as
// physical lines); returns nothing, only grows the line counter.
func preamble(b *builder, kind int) {
	switch kind {
	case 1: // two-line string literal
		b.add("令甲文 = “第一行")
		b.add("第二行”")
	case 2: // line break directly after a backtick inside a literal
		b.add("令甲文 = “第一行`")
		b.add("第二行”")
	case 3: // multi-line comment
		b.add("注：“多行")
		b.add("注释”")
	case 4: // /* */ comment over three lines
		b.add("/* 一")
		b.add("二")
		b.add("三 */")
	case 5: // comment with an empty line inside
		b.add("/* 一")
		b.add("")
		b.add("")
		b.add("三 */")
	case 6: // 注 comment and literal with empty lines inside
		b.add("注：「一")
		b.add("")
		b.add("三」")
		b.add("令甲文 = “一")
		b.add("")
		b.add("三”")
	}
}

var eols = []string{"\n", "\r\n", "\r"}

// parseReport extracts (line numbers in order, quoted source lines) from a rendered error.
func parseReport(text string) (nums []int, quotes []string) {
	ls := strings.Split(text, "\n")
	for k, l := range ls {
		idx := strings.Index(l, "第 ")
		if idx < 0 {
			continue
		}
		rest := l[idx+len("第 "):]
		n := 0
		got := false
		for _, c := range rest {
			if c < '0' || c > '9' {
				break
			}
			n = n*10 + int(c-'0')
			got = true
		}
		if !got {
			continue
		}
		nums = append(nums, n)
		q := ""
		if k+1 < len(ls) && strings.HasPrefix(ls[k+1], "    ") {
			q = strings.TrimLeft(ls[k+1], " \t")
		}
		quotes = append(quotes, q)
	}
	return
}

func execute(src string, in r.ElementMap) (err error, p interface{}) {
	defer func() { p = recover() }()
	exec.GlobalValues["显示"] = value.NewFunction(func(receiver r.Element, params []r.Element) (r.Element, error) {
		return value.NewNull(), nil
	})
	_, err = exec.NewInterpreter("v").LoadScript([]rune(src)).Execute(in)
	return
}

func sameInts(a, b []int) bool {
	if len(a) != len(b) {
		return false
	}
	for k := range a {
		if a[k] != b[k] {
			return false
		}
	}
	return true
}

func reversed(a []int) []int {
	out := make([]int, len(a))
	for k := range a {
		out[len(a)-1-k] = a[k]
	}
	return out
}

// H_RuntimeChain: a runtime fault at a symbolic point (body D, statement K) of
// main -> F1 -> F2, optionally after an earlier handled exception in another
// call and after multi-line literals/comments, with LF / CRLF / CR line ends.
// The report must name the line of the innermost statement and exactly the
// calls active at that moment with their call-site lines.
func H_RuntimeChain() {
	pre := zv.Choose(7)
	eol := eols[zv.Choose(len(eols))]
	earlier := zv.Choose(4) // 0: none; otherwise an earlier exception handled 0, 1 or 2 calls above its raise point
	d := zv.Int("D", 0, 2)
	k := zv.Int("K", 1, 2)
	dd, kk := 0, 1
	for x := 0; x <= 2; x++ {
		if d == x {
			dd = x
		}
	}
	if k == 2 {
		kk = 2
	}

	b := &builder{}
	b.add("输入D、K、Z")
	preamble(b, pre)
	fault := [3][3]int{}
	// where the planted fault sits inside its statement: 0 in a block guarded
	// by the symbolic raise point; otherwise (only at the chosen raise point) in
	// a 每当 condition on its second pass, in a 再如 condition, in the statement
	// right after a finished block, in a nested block of a loop's second pass, or in a 每当 condition tested again after 继续循环
	shape := zv.Choose(6)
	guard := func(ind string, lvl, st int) {
		if shape == 0 {
			b.add(fmt.Sprintf("%s如果 D == %d 且 K == %d：", ind, lvl, st))
			fault[lvl][st] = b.add(ind + "    令W = 1 / Z")
			return
		}
		if lvl != dd || st != kk {
			return
		}
		tag := fmt.Sprintf("%d%d", lvl, st)
		switch shape {
		case 1:
			b.add(ind + "令轮" + tag + " = 0")
			fault[lvl][st] = b.add(ind + "每当 1 / {1 - 轮" + tag + " + Z} > 0：")
			b.add(ind + "    令空转 = 1")
			b.add(ind + "    轮" + tag + " = 轮" + tag + " + 1")
		case 2:
			b.add(ind + "如果 Z == 1：")
			b.add(ind + "    令空转 = 1")
			fault[lvl][st] = b.add(ind + "再如 1 / Z == 1：")
			b.add(ind + "    令空转 = 2")
		case 3:
			b.add(ind + "如果 Z == 0：")
			b.add(ind + "    令空转 = 1")
			fault[lvl][st] = b.add(ind + "令W" + tag + " = 1 / Z")
		case 5: // the pass before the faulting test of the condition ends with 继续循环
			b.add(ind + "令轮" + tag + " = 0")
			fault[lvl][st] = b.add(ind + "每当 1 / {1 - 轮" + tag + " + Z} > 0：")
			b.add(ind + "    轮" + tag + " = 轮" + tag + " + 1")
			b.add(ind + "    继续循环")
			b.add(ind + "    令空转 = 1")
		default:
			b.add(ind + "以项遍历【1，0】：")
			b.add(ind + "    令空转 = 项")
			b.add(ind + "    如果 项 == Z：")
			fault[lvl][st] = b.add(ind + "        令W = 1 / 项")
		}
	}
	b.add("如何抛者？")
	b.add("    抛出异常：“早”！")
	b.add("如何转手？")
	b.add("    （抛者）")
	b.add("如何先前？")
	switch earlier {
	case 2:
		b.add("    （抛者）")
	case 3:
		b.add("    （转手）")
	default:
		b.add("    抛出异常：“早”！")
	}
	b.add("    拦截异常：")
	b.add("        输出 0")
	b.add("如何F2？")
	b.add("    （显示：21）")
	guard("    ", 2, 1)
	b.add("    （显示：22）")
	guard("    ", 2, 2)
	b.add("    输出 200")
	b.add("如何F1？")
	guard("    ", 1, 1)
	callF2 := b.add("    令R2 = （F2）")
	guard("    ", 1, 2)
	b.add("    输出 100")
	if earlier > 0 {
		b.add("令R0 = （先前）")
	}
	guard("", 0, 1)
	callF1 := b.add("令R1 = （F1）")
	guard("", 0, 2)
	b.add("输出 5")
	src := b.source(eol)

	err, p := execute(src, r.ElementMap{"D": value.NewNumber(float64(d)), "K": value.NewNumber(float64(k)), "Z": value.NewNumber(0)})
	zv.Assert(p == nil, "report: no panic")
	zv.Assert(err != nil, "the planted fault ends the program with an error")
	text := exec.DisplayError(err)
	nums, quotes := parseReport(text)
	// expected: innermost statement line + call-site lines of the active calls
	var want []int // outermost first
	switch dd {
	case 0:
		want = []int{fault[0][kk]}
	case 1:
		want = []int{callF1, fault[1][kk]}
	default:
		want = []int{callF1, callF2, fault[2][kk]}
	}
	zv.Observe("report", fmt.Sprintf("pre=%d eol=%q earlier=%d shape=%d raise=%d/%d got=%v want=%v", pre, eol, earlier, shape, dd, kk, nums, want))
	zv.Assert(sameInts(nums, want) || sameInts(nums, reversed(want)), "the report lists the line of the innermost statement and exactly the calls active at that moment (physical line numbers)")
	// quoted lines are the source lines with those numbers
	okQuotes := true
	for i, n := range nums {
		if n < 1 || n > len(b.lines) {
			okQuotes = false
			continue
		}
		if quotes[i] != "" && quotes[i] != strings.TrimLeft(b.lines[n-1], " \t") {
			okQuotes = false
		}
	}
	zv.Assert(okQuotes, "each quoted line is the source line with the reported number")
	zv.Reach("reported")
}

type entry struct {
	module string // "" for the main module
	line   int
}

// parseChain extracts (module, line) of every location line of a rendered error.
func parseChain(text string) (out []entry) {
	for _, l := range strings.Split(text, "\n") {
		idx := strings.Index(l, "第 ")
		if idx < 0 || !(strings.HasPrefix(l, "在") || strings.HasPrefix(l, "来自")) {
			continue
		}
		n, got := 0, false
		for _, c := range l[idx+len("第 "):] {
			if c < '0' || c > '9' {
				break
			}
			n = n*10 + int(c-'0')
			got = true
		}
		if !got {
			continue
		}
		mod := ""
		if a := strings.Index(l, "“"); a >= 0 {
			if b := strings.Index(l, "”"); b > a {
				mod = l[a+len("“") : b]
			}
		}
		out = append(out, entry{mod, n})
	}
	return
}

func chainStr(a []entry) string {
	s := ""
	for _, e := range a {
		s += fmt.Sprintf("(%s:%d)", e.module, e.line)
	}
	return s
}

func sameChain(a, b []entry) bool {
	if len(a) != len(b) {
		return false
	}
	for k := range a {
		if a[k] != b[k] {
			return false
		}
	}
	return true
}

func executeModules(mainSrc string, mods map[string]string, in r.ElementMap) (err error, p interface{}) {
	defer func() { p = recover() }()
	exec.GlobalValues["显示"] = value.NewFunction(func(receiver r.Element, params []r.Element) (r.Element, error) {
		return value.NewNull(), nil
	})
	finder := func(isMain bool, info r.LibNameInfo) ([]rune, error) {
		if isMain {
			return []rune(mainSrc), nil
		}
		if info.LibType == r.LIB_TYPE_STD {
			return []rune{}, nil
		}
		if src, ok := mods[info.OriginalName]; ok {
			return []rune(src), nil
		}
		return nil, fmt.Errorf("no such module")
	}
	parser := syntax.NewParser([]rune(mainSrc), zh.NewParserZH())
	program, perr := parser.Parse()
	if perr != nil {
		return perr, nil
	}
	vm := r.InitVM(exec.GlobalValues)
	vm.SetModuleCodeFinder(finder)
	_, err = exec.EvalMainModule(vm, program, in)
	if err != nil {
		err = exec.WrapRuntimeError(vm, err) // as Interpreter.Execute does
	}
	return
}

// H_ModuleChain: main -> F1 (main) -> G (module 库) -> H (module 库); the fault
// sits at a symbolic one of five points; optionally an earlier exception
// raised inside the module was handled in the main module.  Every entry of the
// report must carry the right module and that module's own physical line.
func H_ModuleChain() {
	pre := zv.Choose(3)
	earlier := zv.Choose(2) == 1
	eol := eols[zv.Choose(len(eols))]
	pt := zv.Int("P", 0, 4)
	points := [][2]int{{1, 1}, {1, 2}, {2, 1}, {2, 2}, {3, 1}}
	dd, kk := 1, 1
	for x := range points {
		if pt == x {
			dd, kk = points[x][0], points[x][1]
		}
	}
	fault := [4][3]int{}
	lb := &builder{}
	preamble(lb, []int{0, 1, 4}[pre])
	guardIn := func(b *builder, ind string, lvl, st int) {
		b.add(fmt.Sprintf("%s如果 D == %d 且 K == %d：", ind, lvl, st))
		fault[lvl][st] = b.add(ind + "    令W = 1 / Z")
	}
	lb.add("如何H？")
	lb.add("    输入D、K、Z")
	guardIn(lb, "    ", 3, 1)
	lb.add("    输出 300")
	lb.add("如何G？")
	lb.add("    输入D、K、Z")
	guardIn(lb, "    ", 2, 1)
	callH := lb.add("    令R3 = （H：D、K、Z）")
	guardIn(lb, "    ", 2, 2)
	lb.add("    输出 200")
	lb.add("如何库抛？")
	lb.add("    抛出异常：“早”！")

	b := &builder{}
	b.add("导入“库”")
	b.add("输入D、K、Z")
	b.add("如何先前？")
	b.add("    （库抛）")
	b.add("    拦截异常：")
	b.add("        输出 0")
	b.add("如何F1？")
	guardIn(b, "    ", 1, 1)
	callG := b.add("    令R2 = （G：D、K、Z）")
	guardIn(b, "    ", 1, 2)
	b.add("    输出 100")
	if earlier {
		b.add("令R0 = （先前）")
	}
	callF1 := b.add("令R1 = （F1）")
	b.add("输出 5")

	in := r.ElementMap{"D": value.NewNumber(float64(dd)), "K": value.NewNumber(float64(kk)), "Z": value.NewNumber(0)}
	err, p := executeModules(b.source(eol), map[string]string{"库": lb.source(eol)}, in)
	zv.Assert(p == nil, "module chain: no panic")
	zv.Assert(err != nil, "module chain: the planted fault ends the program with an error")
	got := parseChain(exec.DisplayError(err))
	var want []entry
	switch dd {
	case 1:
		want = []entry{{"", callF1}, {"", fault[1][kk]}}
	case 2:
		want = []entry{{"", callF1}, {"", callG}, {"库", fault[2][kk]}}
	default:
		want = []entry{{"", callF1}, {"", callG}, {"库", callH}, {"库", fault[3][1]}}
	}
	rev := make([]entry, len(want))
	for k := range want {
		rev[len(want)-1-k] = want[k]
	}
	zv.Observe("chain", fmt.Sprintf("pre=%d eol=%q earlier=%v raise=%d/%d got=%s want=%s", pre, eol, earlier, dd, kk, chainStr(got), chainStr(want)))
	zv.Assert(sameChain(got, want) || sameChain(got, rev), "every entry of the report names the right module and that module's own line")
	zv.Reach("reported")
}

// H_ConstructorChain: the fault arises while a constructor body (如何新建X？) is
// active: in the constructor itself, in a function it calls, or in a method
// called on the fresh object afterwards; the object is created at main level
// or inside a function.
func H_ConstructorChain() {
	eol := eols[zv.Choose(len(eols))]
	where := zv.Choose(3)  // 0: constructor statement, 1: function called by the constructor, 2: method of the new object
	inFunc := zv.Choose(2) // object created at main level / inside a function
	z := zv.Int("Z", 0, 0)
	b := &builder{}
	b.add("输入Z")
	b.add("如何辅助？")
	b.add("    输入V")
	faultHelper := b.add("    输出 V / Z")
	b.add("定义盒：")
	b.add("    其值设为0")
	b.add("    如何取？")
	faultMethod := b.add("        输出 其值 / Z")
	b.add("如何新建盒？")
	b.add("    输入V")
	b.add("    其值 = V")
	faultCtor, callHelper := 0, 0
	switch where {
	case 0:
		faultCtor = b.add("    其值 = V / Z")
	case 1:
		callHelper = b.add("    其值 = （辅助：V）")
	}
	b.add("如何造？")
	newInF := b.add("    令B = （新建盒：5）")
	methodInF := b.add("    输出 以B（取）")
	callMake, newMain, methodMain := 0, 0, 0
	if inFunc == 1 {
		callMake = b.add("令R = （造）")
	} else {
		newMain = b.add("令B = （新建盒：5）")
		methodMain = b.add("令R = 以B（取）")
	}
	b.add("输出 R")
	err, p := execute(b.source(eol), r.ElementMap{"Z": value.NewNumber(float64(z))})
	zv.Assert(p == nil, "constructor chain: no panic")
	zv.Assert(err != nil, "constructor chain: the planted fault ends the program with an error")
	nums, _ := parseReport(exec.DisplayError(err))
	var want []int
	if inFunc == 1 {
		want = []int{callMake}
	}
	newLine, methodLine := newMain, methodMain
	if inFunc == 1 {
		newLine, methodLine = newInF, methodInF
	}
	switch where {
	case 0:
		want = append(want, newLine, faultCtor)
	case 1:
		want = append(want, newLine, callHelper, faultHelper)
	default:
		want = append(want, methodLine, faultMethod)
	}
	zv.Observe("report", fmt.Sprintf("eol=%q where=%d inFunc=%d got=%v want=%v", eol, where, inFunc, nums, want))
	zv.Assert(sameInts(nums, want) || sameInts(nums, reversed(want)), "a fault under a constructor / a method of a fresh object is reported with the line of the innermost statement and every active call")
	zv.Reach("reported")
}

// width per the documented convention: CJK and full-width forms take two columns
func colWidth(c rune) int {
	if c >= 0x2E80 && c <= 0xFFEF && !(c >= 0xFF61 && c <= 0xFFDC) {
		return 2
	}
	return 1
}

// H_SyntaxColumn: a stray ） after a prefix whose characters are symbolic
// (ASCII letter or CJK ideograph): line number and caret column.
func H_SyntaxColumn() {
	pre := zv.Choose(5)
	eol := eols[zv.Choose(len(eols))]
	n := 1 + zv.Choose(3)
	name := make([]rune, n)
	for k := range name {
		c := zv.Rune("c")
		zv.Assume(c == 'a' || c == 0x4E2D || c == 0x3042 /* あ */)
		name[k] = c
	}
	b := &builder{}
	preamble(b, pre)
	b.add("令前 = 1")
	lineNo := b.add("令" + string(name) + " = 1 ）")
	b.add("令后 = 2")
	src := b.source(eol)
	parser := syntax.NewParser([]rune(src), zh.NewParserZH())
	var perr error
	var p interface{}
	func() {
		defer func() { p = recover() }()
		_, perr = parser.Parse()
	}()
	zv.Assert(p == nil && perr != nil, "the stray bracket is a syntax error")
	text := exec.DisplayError(exec.WrapSyntaxError(parser, "主模块", perr))
	nums, quotes := parseReport(text)
	zv.Observe("report", fmt.Sprintf("pre=%d eol=%q got=%v want=%d", pre, eol, nums, lineNo))
	zv.Assert(len(nums) == 1 && nums[0] == lineNo, "a syntax error names the line containing the offending character")
	zv.Assert(len(quotes) == 1 && quotes[0] == "令"+string(name)+" = 1 ）", "the quoted line is that source line")
	// caret column
	ls := strings.Split(text, "\n")
	caret := -1
	for _, l := range ls {
		if strings.HasSuffix(l, "^") && strings.TrimLeft(l, " ") == "^" {
			caret = len(l) - 1
		}
	}
	want := 4 + 2 // indentation of the quote + 令
	for _, c := range name {
		want += colWidth(c)
	}
	want += 5 // " = 1 "
	zv.Assert(caret == want, "the column marker sits under the offending character (wide characters take two columns)")
}

// W_Witness: vacuity guard.
func W_Witness() {
	d := zv.Int("D", 0, 1)
	b := &builder{}
	b.add("输入D")
	b.add("如果 D == 1：")
	l := b.add("    令W = 1 / 0")
	b.add("令V = 1 / 0")
	err, _ := execute(b.source("\n"), r.ElementMap{"D": value.NewNumber(float64(d))})
	nums, _ := parseReport(exec.DisplayError(err))
	zv.Assert(len(nums) == 1 && nums[0] == l, "witness")
}
