// Package c18: errors point at the line and call chain where they arose.
package c18

import (
	"fmt"
	"strings"

	"github.com/DemoHn/Zn/pkg/exec"
	r "github.com/DemoHn/Zn/pkg/runtime"
	"github.com/DemoHn/Zn/pkg/syntax"
	"github.com/DemoHn/Zn/pkg/syntax/zh"
	"github.com/DemoHn/Zn/pkg/value"
	"zsym/zv"
)

// ---------------------------------------------------------------- program builder that tracks physical line numbers

type builder struct {
	lines []string
}

func (b *builder) add(s string) int { // returns the 1-based line number
	b.lines = append(b.lines, s)
	return len(b.lines)
}

func (b *builder) source(eol string) string { return strings.Join(b.lines, eol) }

// preamble: multi-line tokens in front of the program (they count as
// physical lines); returns nothing, only grows the line counter.
func preamble(b *builder, kind int) {
	switch kind {
	case 1: // two-line string literal
		b.add("令甲文 = “第一行")
		b.add("第二行”")
	case 2: // line break directly after a backtick inside a literal
		b.add("令甲文 = “第一行`")
		b.add("第二行”")
	case 3: // multi-line comment
		b.add("注：“多行")
		b.add("注释”")
	case 4: // /* */ comment over three lines
		b.add("/* 一")
		b.add("二")
		b.add("三 */")
	}
}

var eols = []string{"\n", "\r\n", "\r"}

// parseReport extracts (line numbers in order, quoted source lines) from a rendered error.
func parseReport(text string) (nums []int, quotes []string) {
	ls := strings.Split(text, "\n")
	for k, l := range ls {
		idx := strings.Index(l, "第 ")
		if idx < 0 {
			continue
		}
		rest := l[idx+len("第 "):]
		n := 0
		got := false
		for _, c := range rest {
			if c < '0' || c > '9' {
				break
			}
			n = n*10 + int(c-'0')
			got = true
		}
		if !got {
			continue
		}
		nums = append(nums, n)
		q := ""
		if k+1 < len(ls) && strings.HasPrefix(ls[k+1], "    ") {
			q = strings.TrimLeft(ls[k+1], " \t")
		}
		quotes = append(quotes, q)
	}
	return
}

func execute(src string, in r.ElementMap) (err error, p interface{}) {
	defer func() { p = recover() }()
	exec.GlobalValues["显示"] = value.NewFunction(func(receiver r.Element, params []r.Element) (r.Element, error) {
		return value.NewNull(), nil
	})
	_, err = exec.NewInterpreter("v").LoadScript([]rune(src)).Execute(in)
	return
}

func sameInts(a, b []int) bool {
	if len(a) != len(b) {
		return false
	}
	for k := range a {
		if a[k] != b[k] {
			return false
		}
	}
	return true
}

func reversed(a []int) []int {
	out := make([]int, len(a))
	for k := range a {
		out[len(a)-1-k] = a[k]
	}
	return out
}

// H_RuntimeChain: a runtime fault at a symbolic point (body D, statement K) of
// main -> F1 -> F2, optionally after an earlier handled exception in another
// call and after multi-line literals/comments, with LF / CRLF / CR line ends.
// The report must name the line of the innermost statement and exactly the
// calls active at that moment with their call-site lines.
func H_RuntimeChain() {
	pre := zv.Choose(5)
	eol := eols[zv.Choose(len(eols))]
	earlier := zv.Choose(4) // 0: none; otherwise an earlier exception handled 0, 1 or 2 calls above its raise point
	d := zv.Int("D", 0, 2)
	k := zv.Int("K", 1, 2)
	dd, kk := 0, 1
	for x := 0; x <= 2; x++ {
		if d == x {
			dd = x
		}
	}
	if k == 2 {
		kk = 2
	}

	b := &builder{}
	b.add("输入D、K、Z")
	preamble(b, pre)
	fault := [3][3]int{}
	// where the planted fault sits inside its statement: 0 in a block guarded
	// by the symbolic raise point; otherwise (only at the chosen raise point) in
	// a 每当 condition on its second pass, in a 再如 condition, in the statement
	// right after a finished block, or in a nested block of a loop's second pass
	shape := zv.Choose(5)
	guard := func(ind string, lvl, st int) {
		if shape == 0 {
			b.add(fmt.Sprintf("%s如果 D == %d 且 K == %d：", ind, lvl, st))
			fault[lvl][st] = b.add(ind + "    令W = 1 / Z")
			return
		}
		if lvl != dd || st != kk {
			return
		}
		tag := fmt.Sprintf("%d%d", lvl, st)
		switch shape {
		case 1:
			b.add(ind + "令轮" + tag + " = 0")
			fault[lvl][st] = b.add(ind + "每当 1 / {1 - 轮" + tag + " + Z} > 0：")
			b.add(ind + "    令空转 = 1")
			b.add(ind + "    轮" + tag + " = 轮" + tag + " + 1")
		case 2:
			b.add(ind + "如果 Z == 1：")
			b.add(ind + "    令空转 = 1")
			fault[lvl][st] = b.add(ind + "再如 1 / Z == 1：")
			b.add(ind + "    令空转 = 2")
		case 3:
			b.add(ind + "如果 Z == 0：")
			b.add(ind + "    令空转 = 1")
			fault[lvl][st] = b.add(ind + "令W" + tag + " = 1 / Z")
		default:
			b.add(ind + "以项遍历【1，0】：")
			b.add(ind + "    令空转 = 项")
			b.add(ind + "    如果 项 == Z：")
			fault[lvl][st] = b.add(ind + "        令W = 1 / 项")
		}
	}
	b.add("如何抛者？")
	b.add("    抛出异常：“早”！")
	b.add("如何转手？")
	b.add("    （抛者）")
	b.add("如何先前？")
	switch earlier {
	case 2:
		b.add("    （抛者）")
	case 3:
		b.add("    （转手）")
	default:
		b.add("    抛出异常：“早”！")
	}
	b.add("    拦截异常：")
	b.add("        输出 0")
	b.add("如何F2？")
	b.add("    （显示：21）")
	guard("    ", 2, 1)
	b.add("    （显示：22）")
	guard("    ", 2, 2)
	b.add("    输出 200")
	b.add("如何F1？")
	guard("    ", 1, 1)
	callF2 := b.add("    令R2 = （F2）")
	guard("    ", 1, 2)
	b.add("    输出 100")
	if earlier > 0 {
		b.add("令R0 = （先前）")
	}
	guard("", 0, 1)
	callF1 := b.add("令R1 = （F1）")
	guard("", 0, 2)
	b.add("输出 5")
	src := b.source(eol)

	err, p := execute(src, r.ElementMap{"D": value.NewNumber(float64(d)), "K": value.NewNumber(float64(k)), "Z": value.NewNumber(0)})
	zv.Assert(p == nil, "report: no panic")
	zv.Assert(err != nil, "the planted fault ends the program with an error")
	text := exec.DisplayError(err)
	nums, quotes := parseReport(text)
	// expected: innermost statement line + call-site lines of the active calls
	var want []int // outermost first
	switch dd {
	case 0:
		want = []int{fault[0][kk]}
	case 1:
		want = []int{callF1, fault[1][kk]}
	default:
		want = []int{callF1, callF2, fault[2][kk]}
	}
	zv.Observe("report", fmt.Sprintf("pre=%d eol=%q earlier=%d shape=%d raise=%d/%d got=%v want=%v", pre, eol, earlier, shape, dd, kk, nums, want))
	zv.Assert(sameInts(nums, want) || sameInts(nums, reversed(want)), "the report lists the line of the innermost statement and exactly the calls active at that moment (physical line numbers)")
	// quoted lines are the source lines with those numbers
	okQuotes := true
	for i, n := range nums {
		if n < 1 || n > len(b.lines) {
			okQuotes = false
			continue
		}
		if quotes[i] != "" && quotes[i] != strings.TrimLeft(b.lines[n-1], " \t") {
			okQuotes = false
		}
	}
	zv.Assert(okQuotes, "each quoted line is the source line with the reported number")
	zv.Reach("reported")
}

// width per the documented convention: CJK and full-width forms take two columns
func colWidth(c rune) int {
	if c >= 0x2E80 && c <= 0xFFEF && !(c >= 0xFF61 && c <= 0xFFDC) {
		return 2
	}
	return 1
}

// H_SyntaxColumn: a stray ） after a prefix whose characters are symbolic
// (ASCII letter or CJK ideograph): line number and caret column.
func H_SyntaxColumn() {
	pre := zv.Choose(5)
	eol := eols[zv.Choose(len(eols))]
	n := 1 + zv.Choose(3)
	name := make([]rune, n)
	for k := range name {
		c := zv.Rune("c")
		zv.Assume(c == 'a' || c == 0x4E2D || c == 0x3042 /* あ */)
		name[k] = c
	}
	b := &builder{}
	preamble(b, pre)
	b.add("令前 = 1")
	lineNo := b.add("令" + string(name) + " = 1 ）")
	b.add("令后 = 2")
	src := b.source(eol)
	parser := syntax.NewParser([]rune(src), zh.NewParserZH())
	var perr error
	var p interface{}
	func() {
		defer func() { p = recover() }()
		_, perr = parser.Parse()
	}()
	zv.Assert(p == nil && perr != nil, "the stray bracket is a syntax error")
	text := exec.DisplayError(exec.WrapSyntaxError(parser, "主模块", perr))
	nums, quotes := parseReport(text)
	zv.Observe("report", fmt.Sprintf("pre=%d eol=%q got=%v want=%d", pre, eol, nums, lineNo))
	zv.Assert(len(nums) == 1 && nums[0] == lineNo, "a syntax error names the line containing the offending character")
	zv.Assert(len(quotes) == 1 && quotes[0] == "令"+string(name)+" = 1 ）", "the quoted line is that source line")
	// caret column
	ls := strings.Split(text, "\n")
	caret := -1
	for _, l := range ls {
		if strings.HasSuffix(l, "^") && strings.TrimLeft(l, " ") == "^" {
			caret = len(l) - 1
		}
	}
	want := 4 + 2 // indentation of the quote + 令
	for _, c := range name {
		want += colWidth(c)
	}
	want += 5 // " = 1 "
	zv.Assert(caret == want, "the column marker sits under the offending character (wide characters take two columns)")
}

// W_Witness: vacuity guard.
func W_Witness() {
	d := zv.Int("D", 0, 1)
	b := &builder{}
	b.add("输入D")
	b.add("如果 D == 1：")
	l := b.add("    令W = 1 / 0")
	b.add("令V = 1 / 0")
	err, _ := execute(b.source("\n"), r.ElementMap{"D": value.NewNumber(float64(d))})
	nums, _ := parseReport(exec.DisplayError(err))
	zv.Assert(len(nums) == 1 && nums[0] == l, "witness")
}
