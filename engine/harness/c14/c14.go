// Package c14: text operations count characters; % formatting follows the directives.
package c14

import (
	"fmt"
	"math"
	"strings"

	"github.com/DemoHn/Zn/pkg/exec"
	r "github.com/DemoHn/Zn/pkg/runtime"
	"github.com/DemoHn/Zn/pkg/value"
	"zsym/zv"
)

func pureValidScalar(c rune) bool {
	return (c >= 0 && c < 0xD800) || (c >= 0xE000 && c <= 0x10FFFF)
}

func symText(maxN int) []rune {
	n := zv.Choose(maxN + 1)
	t := make([]rune, n)
	for k := range t {
		t[k] = zv.Rune("t")
		zv.Assume(pureValidScalar(t[k]))
	}
	return t
}

func method(a r.Element, name string, args ...r.Element) (res r.Element, err error, p interface{}) {
	defer func() { p = recover() }()
	res, err = a.ExecMethod(name, args)
	return
}

func getter(a r.Element, name string) (res r.Element, err error, p interface{}) {
	defer func() { p = recover() }()
	res, err = a.GetProperty(name)
	return
}

func position(name string) float64 {
	f := zv.Float64(name)
	zv.Assume(f == math.Floor(f))
	return f
}

func textIs(e r.Element, want []rune) bool {
	s, ok := e.(*value.String)
	return ok && s.GetValue() == string(want)
}

// H_T1_Chars: 长度 / 字符组 / 取样 count Unicode characters consistently.
func H_T1_Chars() {
	N := 2
	if zv.Tier() == 1 {
		N = 3
	}
	text := symText(N)
	n := len(text)
	sv := value.NewString(string(text))
	l, err, p := getter(sv, "长度")
	zv.Assert(p == nil && err == nil, "长度 succeeds")
	ln, ok := l.(*value.Number)
	zv.Assert(ok && ln.GetValue() == float64(n), "长度 is the number of characters")
	ca, err2, p2 := getter(sv, "字符组")
	zv.Assert(p2 == nil && err2 == nil, "字符组 succeeds")
	arr, ok2 := ca.(*value.Array)
	zv.Assert(ok2 && arr.Length() == n, "字符组 has one entry per character")
	for k := 0; k < n; k++ {
		zv.Assert(textIs(arr.GetValue()[k], text[k:k+1]), "字符组 entry k is character k")
	}
	// 取样
	i, j := position("i"), position("j")
	res, err3, p3 := method(sv, "取样", value.NewNumber(i), value.NewNumber(j))
	zv.Assert(p3 == nil, "取样: no panic")
	if i >= 1 && i <= j && j <= float64(n) {
		zv.Reach("slice-inside")
		zv.Assert(err3 == nil, "取样 inside 1..length succeeds")
		zv.Assert(textIs(res, text[int(i)-1:int(j)]), "取样 i..j is exactly characters i..j of the character array")
	} else if err3 == nil {
		zv.Reach("slice-other")
		// whatever the convention for other index pairs: whole characters only
		rs, isText := res.(*value.String)
		zv.Assert(isText, "取样 yields a text")
		got := []rune(rs.GetValue())
		found := len(got) == 0
		for a := 0; a+len(got) <= n && !found; a++ {
			if string(text[a:a+len(got)]) == rs.GetValue() {
				found = true
			}
		}
		zv.Assert(found, "取样 never splits a character")
	}
	// positions count characters whatever their encoded width: the same index
	// pair on a text of n one-byte letters selects the same positions
	plain := []rune("abcdefgh")[:n]
	ref, errRef, pRef := method(value.NewString(string(plain)), "取样", value.NewNumber(i), value.NewNumber(j))
	zv.Assert(pRef == nil, "取样 on a plain text: no panic")
	zv.Assert((errRef == nil) == (err3 == nil), "取样 accepts the same index pairs whatever the characters' encoded width")
	if errRef == nil && err3 == nil {
		rr, okr := ref.(*value.String)
		zv.Assert(okr, "取样 yields a text")
		got := []rune(rr.GetValue())
		want := []rune{}
		if len(got) > 0 {
			start := int(got[0] - 'a')
			want = text[start : start+len(got)]
		}
		zv.Assert(textIs(res, want), "取样 selects the same character positions whatever the characters' encoded width (negative indices included)")
	}
}

// ---------------------------------------------------------------- formatting

var tmplAlphabet = []rune{'{', '}', '#', '.', '+', '%', 'E', '2', 'x'}

func pureInTmpl(c rune) bool {
	for _, a := range tmplAlphabet {
		if c == a {
			return true
		}
	}
	return false
}

type piece struct {
	lit       []rune
	isHolder  bool
	directive []rune // placeholder text between { }
}

// scanTemplate: literal text and {…} placeholders alternate.
func scanTemplate(t []rune) ([]piece, bool) {
	var out []piece
	var cur []rune
	in := false
	for _, c := range t {
		switch {
		case c == '{':
			if in {
				return nil, false
			}
			if len(cur) > 0 {
				out = append(out, piece{lit: cur})
			}
			cur = nil
			in = true
		case c == '}':
			if !in {
				return nil, false
			}
			out = append(out, piece{isHolder: true, directive: cur})
			cur = nil
			in = false
		default:
			cur = append(cur, c)
		}
	}
	if in {
		return nil, false
	}
	if len(cur) > 0 {
		out = append(out, piece{lit: cur})
	}
	return out, true
}

const (
	dirDisplay = iota
	dirDefault // {#}
	dirFixed   // {#.N}
	dirPlus    // {#+}
	dirPercent // {#.N%}
	dirSci     // {#.NE}
	dirMalformed
	dirSilent // accepted by the implementation's wider grammar; manual silent
)

func pureIsDigit(c rune) bool { return c >= '0' && c <= '9' }

// classifyDirective per chapter 6: "", "#", "#.N", "#+", "#.N%", "#.NE".
func classifyDirective(d []rune) (kind int, prec int) {
	if len(d) == 0 {
		return dirDisplay, 0
	}
	if d[0] != '#' {
		return dirMalformed, 0
	}
	d = d[1:]
	if len(d) == 0 {
		return dirDefault, 0
	}
	if len(d) == 1 && d[0] == '+' {
		return dirPlus, 0
	}
	// characters outside + . digits E % are malformed
	for _, c := range d {
		if !(c == '+' || c == '.' || c == 'E' || c == '%' || pureIsDigit(c)) {
			return dirMalformed, 0
		}
	}
	if d[0] == '.' {
		k := 1
		n := 0
		for k < len(d) && pureIsDigit(d[k]) {
			n = n*10 + int(d[k]-'0')
			k++
		}
		if k > 1 && k-1 <= 6 {
			switch {
			case k == len(d):
				return dirFixed, n
			case k == len(d)-1 && d[k] == '%':
				return dirPercent, n
			case k == len(d)-1 && d[k] == 'E':
				return dirSci, n
			}
		}
	}
	return dirSilent, 0
}

func mkArg(name string) (r.Element, bool, float64) {
	switch zv.Choose(3) {
	case 0:
		f := zv.Float64(name)
		return value.NewNumber(f), true, f
	case 1:
		return value.NewString("甲"), false, 0
	}
	return value.NewBool(true), false, 0
}

func run(src string, in r.ElementMap) (res r.Element, err error, p interface{}) {
	defer func() { p = recover() }()
	res, err = exec.NewInterpreter("v").LoadScript([]rune(src)).Execute(in)
	return
}

func checkFormat(tmpl []rune, tag string) {
	nargs := zv.Choose(3)
	args := make([]r.Element, nargs)
	isNum := make([]bool, nargs)
	nums := make([]float64, nargs)
	for k := range args {
		args[k], isNum[k], nums[k] = mkArg("a")
	}
	res, err, p := run("输入T、L\n输出 T % L", r.ElementMap{"T": value.NewString(string(tmpl)), "L": value.NewArray(args)})
	zv.Assert(p == nil, tag+": no panic")

	pieces, ok := scanTemplate(tmpl)
	if !ok {
		zv.Reach("malformed-template")
		zv.Assert(err != nil, tag+": malformed template is an error")
		return
	}
	holders := 0
	bad := false
	for _, pc := range pieces {
		if pc.isHolder {
			kind, _ := classifyDirective(pc.directive)
			zv.Assume(kind != dirSilent)
			if kind == dirMalformed {
				bad = true
			}
			holders++
		}
	}
	if holders != nargs {
		zv.Reach("count-mismatch")
		zv.Assert(err != nil, tag+": placeholder/argument count mismatch is an error")
		return
	}
	if bad {
		zv.Reach("malformed-directive")
		zv.Assert(err != nil, tag+": malformed directive is an error")
		return
	}
	// expected text
	var want string
	k := 0
	for _, pc := range pieces {
		if !pc.isHolder {
			want += string(pc.lit)
			continue
		}
		kind, prec := classifyDirective(pc.directive)
		if kind == dirDisplay {
			want += args[k].String()
			k++
			continue
		}
		if !isNum[k] {
			zv.Reach("directive-on-non-number")
			zv.Assert(err != nil, tag+": numeric directive on a non-number is an error")
			return
		}
		f := nums[k]
		switch kind {
		case dirDefault:
			want += fmt.Sprintf("%.6g", f)
		case dirPlus:
			want += fmt.Sprintf("%+.6g", f)
		case dirFixed:
			want += fmt.Sprintf(fmt.Sprintf("%%.%df", prec), f)
		case dirPercent:
			want += fmt.Sprintf(fmt.Sprintf("%%.%df", prec), f*100) + "%"
		case dirSci:
			want += fmt.Sprintf(fmt.Sprintf("%%.%dE", prec), f)
		}
		k++
	}
	zv.Reach("formatted")
	zv.Assert(err == nil, tag+": well-formed template with matching arguments formats")
	rs, isText := res.(*value.String)
	zv.Assert(isText, tag+": result is a text")
	zv.Assert(rs.GetValue() == want, tag+": placeholders replaced in order, other text verbatim")
}

// H_T2_Free: templates of up to N symbolic characters over { } # . + % E digit letter.
func H_T2_Free() {
	N := 3
	if zv.Tier() == 1 {
		N = 4
	}
	n := zv.Choose(N + 1)
	t := make([]rune, n)
	for k := range t {
		t[k] = zv.Rune("c")
		zv.Assume(pureInTmpl(t[k]))
		if t[k] == '2' {
			zv.Reach("digit") // fixes the digit so that the precision is concrete
		}
	}
	checkFormat(t, "T2")
}

var precisions = []string{"0", "1", "6", "17", "100", "1000", "999999", "1000000", "1000001", "9999999999", "99999999999999999999", "00000000000000000002"}

// H_T2_Precision: {#.N}, {#.NE}, {#.N%}, {#+.N} with precisions from one digit
// to twenty digits, on a symbolic sign and five magnitudes: the result is the
// documented rendering (N decimals) or an error - never text produced by a
// failed conversion inside the host's formatter.
func H_T2_Precision() {
	prec := precisions[zv.Choose(len(precisions))]
	suffix := []string{"", "E", "%"}[zv.Choose(3)]
	plus := []string{"", "+"}[zv.Choose(2)]
	x := []float64{1.5, 0, 123456.789, 1e-7, 2.5e20}[zv.Choose(5)]
	if zv.Bool("neg") {
		x = -x
	}
	tmpl := "值{#" + plus + "." + prec + suffix + "}"
	res, err, p := run("输入T、X\n输出 T % 【X】", r.ElementMap{"T": value.NewString(tmpl), "X": value.NewNumber(x)})
	zv.Assert(p == nil, "precision: no panic")
	if err != nil {
		zv.Reach("rejected")
		return
	}
	zv.Reach("formatted")
	rs, ok := res.(*value.String)
	zv.Assert(ok, "precision: result is a text")
	text := rs.GetValue()
	zv.Assert(!strings.Contains(text, "%!"), "a precision the formatter cannot honour is reported as an error, not rendered as the host formatter's failure text: "+tmpl)
	zv.Assert(strings.HasPrefix(text, "值"), "precision: literal text copied verbatim")
	if len(prec) <= 4 {
		n := 0
		for _, c := range prec {
			n = n*10 + int(c-'0')
		}
		verb := "%" + plus + fmt.Sprintf(".%d", n)
		want := ""
		switch suffix {
		case "E":
			want = fmt.Sprintf(verb+"E", x)
		case "%":
			want = fmt.Sprintf(verb+"f", x*100) + "%"
		default:
			want = fmt.Sprintf(verb+"f", x)
		}
		zv.Assert(text == "值"+want, "{#.N} renders N decimals: "+tmpl)
	}
}

var valuePool = []float64{0, 5, -5, 0.5, 999999, 1000000, 1234567, -98765432, 25000, 123456.7, 1e21, 1e-5, 2.5e-7}

// H_T2_Values: the documented directives on a pool of magnitudes around the
// points where a rendering changes form (10^6, 10^21, 10^-5), compared with the
// documented rendering character by character.
func H_T2_Values() {
	x := valuePool[zv.Choose(len(valuePool))]
	var dir, want string
	switch zv.Choose(8) {
	case 0:
		dir, want = "{#}", fmt.Sprintf("%.6g", x)
	case 1:
		dir, want = "{#+}", fmt.Sprintf("%+.6g", x)
	case 2:
		dir, want = "{#.2}", fmt.Sprintf("%.2f", x)
	case 3:
		dir, want = "{#.0}", fmt.Sprintf("%.0f", x)
	case 4:
		dir, want = "{#.3E}", fmt.Sprintf("%.3E", x)
	case 5:
		dir, want = "{#.1%}", fmt.Sprintf("%.1f", x*100)+"%"
	case 6:
		dir, want = "{#+.2}", fmt.Sprintf("%+.2f", x)
	default:
		dir, want = "{}", ""
	}
	res, err, p := run("输入T、X\n输出 T % 【X】", r.ElementMap{"T": value.NewString("值" + dir + "。"), "X": value.NewNumber(x)})
	zv.Assert(p == nil && err == nil, "values: formats")
	rs, ok := res.(*value.String)
	zv.Assert(ok, "values: result is a text")
	if dir == "{}" {
		zv.Assert(strings.HasPrefix(rs.GetValue(), "值") && strings.HasSuffix(rs.GetValue(), "。"), "values: {} keeps the surrounding text")
		return
	}
	if rs.GetValue() != "值"+want+"。" {
		zv.Observe("got", rs.GetValue())
		zv.Observe("want", "值"+want+"。")
	}
	zv.Assert(rs.GetValue() == "值"+want+"。", "the documented rendering of "+dir)
}

// H_T2_Structured: text{#‹directive of up to 3 symbolic characters›}text{} .
func H_T2_Structured() {
	K := 3
	if zv.Tier() == 1 {
		K = 4
	}
	k := zv.Choose(K + 1)
	t := []rune{'甲', '{', '#'}
	for j := 0; j < k; j++ {
		c := zv.Rune("d")
		zv.Assume(pureInTmpl(c) && c != '{' && c != '}')
		if c == '2' {
			zv.Reach("digit")
		}
		t = append(t, c)
	}
	t = append(t, '}', '乙', '{', '}')
	checkFormat(t, "T2s")
}

// W_T2_Witness: vacuity guard.
func W_T2_Witness() {
	f := zv.Float64("f")
	res, _, _ := run("输入T、L\n输出 T % L", r.ElementMap{"T": value.NewString("{#.2}"), "L": value.NewArray([]r.Element{value.NewNumber(f)})})
	rs := res.(*value.String)
	zv.Assert(rs.GetValue() == fmt.Sprintf("%.3f", f), "witness")
}
