// Package c05: compilation and error display terminate cleanly (property C05).
package c05

import (
	r "github.com/DemoHn/Zn/pkg/runtime"
	"strings"

	zerr "github.com/DemoHn/Zn/pkg/error"
	"github.com/DemoHn/Zn/pkg/exec"
	"github.com/DemoHn/Zn/pkg/syntax"
	"github.com/DemoHn/Zn/pkg/syntax/zh"
	"zsym/harness/c03"
	"zsym/zv"
)

// fault-provoking alphabet for symbolic source characters
var alphabet = []rune{
	'\r', '\n', ' ', '\t', 0, 'A', 0x4E2D /* 中 */, '1',
	0x201C, 0x201D, 0x300C, '`', 0x6CE8 /* 注 */, 0xFF1A /* ： */, '/', '*',
	0x4EE4 /* 令 */, '=', 0x5982 /* 如 */, 0x679C /* 果 */, 0x62E6 /* 拦 */, 0x622A, /* 截 */
	0x3010, 0x3011, 0xFF08, 0xFF09, '{', '}', 0x1F600,
}

func pureInAlphabet(c rune) bool {
	for _, a := range alphabet {
		if c == a {
			return true
		}
	}
	return false
}

type outcome struct {
	tree     *syntax.Program
	err      error
	panicked interface{}
}

func parse(src []rune) (p *syntax.Parser, o outcome) {
	p = syntax.NewParser(src, zh.NewParserZH())
	func() {
		defer func() { o.panicked = recover() }()
		o.tree, o.err = p.Parse()
	}()
	return
}

func display(p *syntax.Parser, err error) (text string, panicked interface{}) {
	defer func() { panicked = recover() }()
	text = exec.DisplayError(exec.WrapSyntaxError(p, "主模块", err))
	return
}

// checkFrontEnd is the C05 oracle for one source text.
func checkFrontEnd(src []rune, tag string) {
	// the engine models what exec does: the source slice comes from a
	// string conversion (capacity rounded up by the allocator)
	checkFrontEndOn(src, []rune(string(src)), tag)
}

func checkFrontEndOn(src, given []rune, tag string) {
	p, o := parse(given)
	zv.Assert(o.panicked == nil, tag+": Parse does not panic")
	if o.err == nil {
		zv.Reach("tree")
		zv.Assert(o.tree != nil, tag+": a tree is returned when there is no error")
		return
	}
	zv.Reach("error")
	serr, ok := o.err.(*zerr.SyntaxError)
	zv.Assert(ok, tag+": the error is a coded syntax error")
	zv.Assert(serr.Code != 0, tag+": the error carries a code")
	zv.Assert(serr.Cursor >= 0 && serr.Cursor <= len(src), tag+": error position inside the text")
	text, dp := display(p, o.err)
	zv.Assert(dp == nil, tag+": rendering the error does not panic")
	// second line of the rendering quotes a source line (without its indentation)
	lines := strings.Split(text, "\n")
	zv.Assert(len(lines) >= 2, tag+": rendering has a location line and a quoted line")
	quoted := strings.TrimPrefix(lines[1], "    ")
	zv.Assert(isSourceLine(src, quoted), tag+": the quoted line exists in the source")
	zv.Reach("rendered")
}

// H_E1_SymbolicSource: every text of up to N characters over the alphabet.
func H_E1_SymbolicSource() {
	N := 2
	if zv.Tier() == 1 {
		N = 4
	}
	n := zv.Choose(N) + 1
	src := make([]rune, n)
	for k := range src {
		src[k] = zv.Rune("c")
		zv.Assume(pureInAlphabet(src[k]))
	}
	checkFrontEnd(src, "E1")
}

// H_E3_InputText: input-variable text and input expressions of up to N
// symbolic characters over the alphabet: evaluation terminates with a value map
// or an error, never a Go panic and never a nil value.
func H_E3_InputText() {
	N := 2
	if zv.Tier() == 1 {
		N = 3
	}
	n := zv.Choose(N) + 1
	src := make([]rune, n)
	for k := range src {
		src[k] = zv.Rune("c")
		zv.Assume(pureInAlphabet(src[k]))
	}
	pk := zv.Choose(3)
	if zv.Tier() == 0 && pk != 1 && n > 1 {
		return // quick tier: full length only behind "X = "
	}
	prefix := []string{"", "X = ", "X = 1；Y = "}[pk]
	text := prefix + string(src)
	var p interface{}
	var m r.ElementMap
	var err error
	func() {
		defer func() { p = recover() }()
		m, err = exec.ExecVarInputText(text)
	}()
	zv.Assert(p == nil, "E3: input-variable text does not panic")
	if err == nil {
		zv.Reach("varinput-accepted")
		for _, v := range m {
			zv.Assert(v != nil, "E3: input-variable text yields no nil value")
		}
	} else {
		zv.Reach("varinput-rejected")
	}
	func() {
		defer func() { p = recover() }()
		m, err = exec.ExecExpressionInputText(map[string]string{"X": string(src)})
	}()
	zv.Assert(p == nil, "E3: an input expression does not panic")
	if err == nil {
		zv.Reach("expression-accepted")
		v, ok := m["X"]
		zv.Assert(ok && v != nil, "E3: an accepted input expression yields a value")
	} else {
		zv.Reach("expression-rejected")
	}
}

// H_E4_CommentLayout: a multi-line comment or text literal inside an indented
// block whose continuation / closing line is indented less, equally or more
// than the block (symbolic number of blanks), followed by more statements.
func H_E4_CommentLayout() {
	open, close := "", ""
	switch zv.Choose(5) {
	case 0:
		open, close = "/* 注", "*/"
	case 1:
		open, close = "注：「甲", "」"
	case 2:
		open, close = "注：“甲", "”"
	case 3:
		open, close = "令文 = “甲", "”"
	default:
		open, close = "令文 = 「甲", "」"
	}
	depth := 1 + zv.Choose(2)
	blanks := zv.Int("blanks", 0, 9)
	nb := 0
	for k := 0; k <= 9; k++ {
		if blanks == k {
			nb = k
		}
	}
	useTab := zv.Choose(2) == 1
	unit := "    "
	if useTab {
		unit = "\t"
	}
	ind := ""
	for k := 0; k < depth; k++ {
		ind += unit
	}
	pad := ""
	for k := 0; k < nb; k++ {
		if useTab {
			pad += "\t"
		} else {
			pad += " "
		}
	}
	middle := zv.Choose(2) == 1 // one more continuation line in between
	src := "如何F？\n"
	if depth == 2 {
		src += unit + "如果 真：\n"
	}
	src += ind + "令A = 1\n" + ind + open + "\n"
	if middle {
		src += "乙\n"
	}
	src += pad + close + "\n" + ind + "令B = 2\n" + unit + "输出 A\n输出（F）"
	checkFrontEnd([]rune(src), "E4")
}

var anyRuneContexts = [][2]string{{"令甲 = 「", "」）"}, {"（显示：「", "」、、）"}, {"注：「", "」 ）"}, {"", ""}, {"令X = ", ""}, {"令X", " = 1"}, {"`", "`"}, {"“", "”"}, {"注：", ""}, {"（显示：", "）"}}

// H_E1c_AnyRune: one character that may be ANY Unicode scalar value (and any
// other int32 a []rune can hold), in seven contexts.
func H_E1c_AnyRune() {
	ctx := anyRuneContexts[zv.Choose(len(anyRuneContexts))]
	c := zv.Rune("c")
	zv.Assume(c >= 0 && c <= 0x10FFFF && !(c >= 0xD800 && c <= 0xDFFF)) // what decoding a file or a Go string can yield
	src := append(append([]rune(ctx[0]), c), []rune(ctx[1])...)
	given := make([]rune, len(src), len(src)+8)
	copy(given, src)
	checkFrontEndOn(src, given, "E1c["+ctx[0]+"·"+ctx[1]+"]")
}

// isSourceLine: q equals some physical line of src up to leading blanks (the
// renderer may or may not strip indentation).
func isSourceLine(src []rune, q string) bool {
	for len(q) > 0 && (q[0] == ' ' || q[0] == '\t') {
		q = q[1:]
	}
	start := 0
	for k := 0; k <= len(src); k++ {
		if k == len(src) || src[k] == '\r' || src[k] == '\n' {
			line := src[start:k]
			for len(line) > 0 && (line[0] == ' ' || line[0] == '\t') {
				line = line[1:]
			}
			if string(line) == q {
				return true
			}
			start = k + 1
		}
	}
	return false
}

var blankAlphabet = []rune{'\r', '\n', ' ', '\t', 'A', 0x4E2D, 0x201C, 0x6CE8, 0xFF1A}

func pureInBlankAlphabet(c rune) bool {
	for _, a := range blankAlphabet {
		if c == a {
			return true
		}
	}
	return false
}

// H_E1b_Layout: texts of up to 3 (4) characters over line ends, blanks, one
// letter, one wide letter, a quote, 注 and ： (indentation and line structure).
func H_E1b_Layout() {
	N := 3
	if zv.Tier() == 1 {
		N = 4
	}
	n := zv.Choose(N) + 1
	src := make([]rune, n)
	for k := range src {
		src[k] = zv.Rune("c")
		zv.Assume(pureInBlankAlphabet(src[k]))
	}
	checkFrontEnd(src, "E1b")
}

// H_E2_Mutations: every prefix and every single-character deletion /
// duplication of the parser corpus (cut position symbolic) through the whole
// front end including error rendering.
func H_E2_Mutations() {
	corpus := c03.Canonical()
	src := []rune(corpus[zv.Choose(len(corpus))])
	cut := zv.Int("cut", 0, len(src))
	mode := zv.Choose(3)
	var mutated []rune
	for k := 0; k <= len(src); k++ {
		if cut == k {
			switch {
			case mode == 0:
				mutated = append([]rune{}, src[:k]...)
			case k >= len(src):
				zv.Stop()
			case mode == 1:
				mutated = append(append([]rune{}, src[:k]...), src[k+1:]...)
			default:
				mutated = append(append(append([]rune{}, src[:k+1]...), src[k]), src[k+1:]...)
			}
			break
		}
	}
	checkFrontEnd(mutated, "E2")
}
