// Package c10: no program can crash the host process (property C10).
package c10

import (
	"github.com/DemoHn/Zn/pkg/common"
	"github.com/DemoHn/Zn/pkg/exec"
	r "github.com/DemoHn/Zn/pkg/runtime"
	"github.com/DemoHn/Zn/pkg/value"
	libfile "github.com/DemoHn/Zn/stdlib/file"
	libjson "github.com/DemoHn/Zn/stdlib/json"
	"zsym/zv"
)

const vpkg = "github.com/DemoHn/Zn/pkg/value."

type recvKind struct {
	name string
	typ  string // Go type name in pkg/value
	make func() r.Element
}

func textPool() string {
	switch zv.Choose(4) {
	case 0:
		return ""
	case 1:
		return "甲乙丙"
	case 2:
		return "a😀b"
	}
	return "12.5"
}

func mkList(prefix string) r.Element {
	n := zv.Choose(3)
	items := []r.Element{}
	for k := 0; k < n; k++ {
		items = append(items, value.NewNumber(zv.Float64(prefix+"e")))
	}
	return value.NewArray(items)
}

func mkDict(prefix string) r.Element {
	n := zv.Choose(3)
	var kv []value.KVPair
	keys := []string{"甲", "乙"}
	for k := 0; k < n; k++ {
		key := keys[k]
		if k == 1 && zv.Choose(2) == 1 {
			key = keys[0] // the same key twice
		}
		kv = append(kv, value.KVPair{Key: key, Value: value.NewNumber(zv.Float64(prefix + "v"))})
	}
	return value.NewHashMap(kv)
}

var receivers = []recvKind{
	{"list", "Array", func() r.Element { return mkList("r") }},
	{"dict", "HashMap", func() r.Element { return mkDict("r") }},
	{"text", "String", func() r.Element { return value.NewString(textPool()) }},
	{"number", "Number", func() r.Element { return value.NewNumber(zv.Float64("rn")) }},
	{"bool", "Bool", func() r.Element { return value.NewBool(zv.Bool("rb")) }},
	{"null", "Null", func() r.Element { return value.NewNull() }},
	{"method value", "Function", func() r.Element {
		return value.NewFunction(func(receiver r.Element, params []r.Element) (r.Element, error) { return value.NewNull(), nil })
	}},
	{"type", "ClassModel", func() r.Element { return value.NewClassModel("某类") }},
	{"exception", "Exception", func() r.Element { return value.NewException(textPool()) }},
	{"object", "Object", func() r.Element {
		return value.NewObject(value.NewClassModel("某类"), map[string]r.Element{"甲": value.NewNumber(zv.Float64("rp"))})
	}},
	{"host value", "GoValue", func() r.Element { return value.NewGoValue("标签", 5) }},
}

// member names tried on receivers without a member table
var genericNames = []string{"长度", "内容", "自身", "甲", "数目"}

func mkArg(name string) r.Element {
	switch zv.Choose(6) {
	case 0:
		return value.NewNumber(zv.Float64(name))
	case 1:
		return value.NewString(textPool())
	case 2:
		return value.NewBool(zv.Bool(name))
	case 3:
		return value.NewNull()
	case 4:
		return mkList(name)
	}
	return mkDict(name)
}

func pick(names []string) string {
	if len(names) == 0 {
		names = genericNames
	}
	k := zv.Choose(len(names) + 1)
	if k == len(names) {
		return "无此成员"
	}
	return names[k]
}

// H_Members: every member of every built-in value type (member tables read
// from the SSA of the current tree) with every arity 0..A and every argument
// kind; numbers are unconstrained doubles.
func H_Members() {
	A := 2
	if zv.Tier() == 1 {
		A = 3
	}
	rk := receivers[zv.Choose(len(receivers))]
	recv := rk.make()
	op := zv.Choose(3)
	var panicked interface{}
	var res r.Element
	var err error
	switch op {
	case 0: // method
		name := pick(zv.StringTable("(*" + vpkg + rk.typ + ").ExecMethod"))
		n := zv.Choose(A + 1)
		args := []r.Element{}
		for k := 0; k < n; k++ {
			args = append(args, mkArg("a"))
		}
		func() {
			defer func() { panicked = recover() }()
			res, err = recv.ExecMethod(name, args)
		}()
		zv.Assert(panicked == nil, "method "+rk.name+"."+name+": no Go panic")
		zv.Assert(err != nil || res != nil, "method "+rk.name+"."+name+": a value or an error")
	case 1: // getter
		name := pick(zv.StringTable("(*" + vpkg + rk.typ + ").GetProperty"))
		func() {
			defer func() { panicked = recover() }()
			res, err = recv.GetProperty(name)
		}()
		zv.Assert(panicked == nil, "getter "+rk.name+"."+name+": no Go panic")
		zv.Assert(err != nil || res != nil, "getter "+rk.name+"."+name+": a value or an error")
	default: // setter
		name := pick(zv.StringTable("(*" + vpkg + rk.typ + ").SetProperty"))
		arg := mkArg("a")
		func() {
			defer func() { panicked = recover() }()
			err = recv.SetProperty(name, arg)
		}()
		zv.Assert(panicked == nil, "setter "+rk.name+"."+name+": no Go panic")
	}
	// the receiver is still a usable value afterwards: displaying it and
	// reading each of its properties does not panic either
	func() {
		defer func() { panicked = recover() }()
		if st, ok := recv.(interface{ String() string }); ok {
			_ = st.String()
		}
		for _, g := range zv.StringTable("(*" + vpkg + rk.typ + ").GetProperty") {
			recv.GetProperty(g)
		}
	}()
	zv.Assert(panicked == nil, "after a member of "+rk.name+" ran, the receiver can still be displayed and its properties read")
	zv.Reach("done")
}

func run(src string, in r.ElementMap) (res r.Element, err error, panicked interface{}) {
	defer func() { panicked = recover() }()
	res, err = exec.NewInterpreter("verif").LoadScript([]rune(src)).Execute(in)
	return
}

var indexPrograms = []string{
	"输入A、I\n输出 A#I",
	"输入A、I\nA#I = 1\n输出 A",
	"输入A、I\n输出 A#{I}",
	"输入A、I\nA#{I} = 1\n输出 A",
	"输入A、I\n输出 A之长度",
	"输入A、I\n输出 以A（新增：I、I）",
	"输入A、I\n输出 以A（交换：I、1）",
	"输入A、I\n输出 以A（取样：I、2）",
	"输入A、I\n输出（新建数值：A、I）",
	"输入A、I\n抛出异常：A、I！",
	"输入A、I\n令B = A\n遍历B：\n    输出 此",
	"输入A、I\n如果I：\n    输出 A",
	"输入A、I\n输出 A之I",
	"输入A、I\n如何F？\n    输出 1abc\n输出（F）",
	"输入A、I\n如何F？\n    输入T、L\n    输出 T % L\n输出（F：A、I）",
	"输入A、I\n如何F？\n    输入T、L\n    输出 “{}{” % 【T】\n输出（F：A、I）",
	"输入A、I\n定义T：\n    其甲设为1\n    如何改？\n        输入V\n        输出 “{#.}}” % 【V】\n令O = （新建T）\n输出 以O（改：A）",
	"输入A、I\n令B = 【A，I】\n输出 B#I",
	"输入A、I\n如何甲？\n    如何乙？\n        输出 1\n（显示：（甲））\n输出 1",
	"输入A、I\n如何甲？\n    如何乙？\n        输出 1\n输出（甲）",
	"输入A、I\n如何甲？\n    定义丙：\n        其值设为1\n令R = （甲）\n输出 【R，A】",
	"输入A、I\n如何新建异常？\n    输入M\n    定义X：\n        其值设为1\n抛出异常：“a”！",
	"输入A、I\n如何新建异常？\n    输入M\n    令Y = A / I\n    拦截异常：\n        输出 1\n抛出异常：“a”！",
	"输入A、I\n如何新建异常？\n    输入M\n    如何内？\n        输出 A\n    其内容 = （内）\n抛出异常：“a”！",
	"输入A、I\n令B = 【甲 = A，甲 = I，乙 = 1】\n以B（移除：“甲”）\n输出 “{}” % 【B】",
	"输入A、I\n令B = 【甲 = A，甲 = I】\n以B（移除：“甲”）\n输出 B之所有值",
	"输入A、I\n令B = 【甲 = A，乙 = I，甲 = 1】\n以B（移除：I）\n遍历B：\n    （显示：此）\n输出 B之数目",
	"输入A、I\n令B = 【A，I】\n以B（移除：I）\n以B（前增：A）\n输出 “{}” % 【B】",
}

var libPrograms = []string{
	"导入《@文件》\n输入A、I\n输出（读取文件：A、I）",
	"导入《@文件》\n输入A、I\n输出（读取文件：A）",
	"导入《@文件》\n输入A、I\n输出（写入文件：A、I）",
	"导入《@文件》\n输入A、I\n输出（写入文件：“/nonexistent-dir/x”、“y”）",
	"导入《@文件》\n输入A、I\n输出（读取目录：A）",
	"导入《@文件》\n输入A、I\n输出（写入文件：“/tmp/zsym-w-c10.txt”、“y”）",
	"导入《@文件》\n输入A、I\n令R = （写入文件：“/tmp/zsym-w-c10.txt”、“y”）\n输出 R",
	"导入《@文件》\n输入A、I\n令R = （写入文件：“/nonexistent-dir/x”、“y”）\n输出 R",
	"导入《@JSON》\n输入A、I\n输出（解析JSON：A、I）",
	"导入《@JSON》\n输入A、I\n输出（解析JSON：A）",
	"导入《@JSON》\n输入A、I\n输出（生成JSON：A）",
	"导入《@JSON》\n输入A、I\n输出（生成JSON：A、I）",
}

// H_Library: registered library functions with ill-typed / ill-counted arguments.
func H_Library() {
	src := libPrograms[zv.Choose(len(libPrograms))]
	a := mkArg("A")
	i := mkArg("I")
	var res r.Element
	var err error
	var p interface{}
	func() {
		defer func() { p = recover() }()
		res, err = exec.NewInterpreter("verif").SetExternalLibs([]*r.Library{libfile.Export(), libjson.Export()}).LoadScript([]rune(src)).Execute(r.ElementMap{"A": a, "I": i})
	}()
	zv.Assert(p == nil, "library: no Go panic: "+src)
	zv.Assert(err != nil || res != nil, "library: a value or an error: "+src)
	zv.Reach("done")
}

var varInputTexts = []string{
	"", "X = 1", "X = Y", "X = 其Y", "X = 1 + “a”", "X = （F）", "X = 【1，2】#5", "X = 1 / 0",
	"X = 以Y（F）", "X = （新建异常：“a”）", "A = （显示：1），得到X\nB = （X）", "A = （显示：1）\nB = 丙丁", "A = 以“abc”（替换：“a”、“b”），得到X\nB = 以X（无此法）", "A = （显示：1），得到X\nB = X之长度", "X 设为 【A=1】#B", "X = 此", "X", "X = ", "= 1", "X = “",
}

// H_VarInput: input-variable text.
func H_VarInput() {
	src := varInputTexts[zv.Choose(len(varInputTexts))]
	var p interface{}
	var err error
	var m r.ElementMap
	func() {
		defer func() { p = recover() }()
		m, err = exec.ExecVarInputText(src)
	}()
	zv.Assert(p == nil, "varinput: no Go panic: "+src)
	if err == nil {
		for _, v := range m {
			zv.Assert(v != nil, "varinput: no nil value: "+src)
		}
	}
	zv.Reach("done")
}

// H_Programs: index / member / constructor / throw expressions applied to
// ill-typed operands through the real front end and evaluator.
func H_Programs() {
	src := indexPrograms[zv.Choose(len(indexPrograms))]
	a := mkArg("A")
	i := mkArg("I")
	res, err, p := run(src, r.ElementMap{"A": a, "I": i})
	zv.Assert(p == nil, "program: no Go panic: "+src)
	zv.Assert(err != nil || res != nil, "program: a value or an error: "+src)
	zv.Reach("done")
}

// H_NoSelfContainment: a list / dictionary stored into itself is stored as a
// copy: no value ever contains itself (displaying, copying or comparing such a
// value would recurse until the host's stack overflows - a fatal error no
// recover() can catch).
func H_NoSelfContainment() {
	x := zv.Float64("x")
	var p interface{}
	switch zv.Choose(5) {
	case 0, 1, 2:
		arr := value.NewArray([]r.Element{value.NewNumber(x)})
		name := []string{"后增", "前增", "新增"}[zv.Choose(3)]
		args := []r.Element{arr}
		if name == "新增" {
			args = []r.Element{arr, value.NewNumber(1)}
		}
		func() {
			defer func() { p = recover() }()
			arr.ExecMethod(name, args)
		}()
		zv.Assert(p == nil, "self insertion: no panic")
		for _, e := range arr.GetValue() {
			zv.Assert(e != r.Element(arr), "a list stored into itself ("+name+") is stored as a copy")
		}
	case 3:
		hm := value.NewHashMap([]value.KVPair{{Key: "甲", Value: value.NewNumber(x)}})
		func() {
			defer func() { p = recover() }()
			hm.ExecMethod("写入", []r.Element{value.NewString("自"), hm})
		}()
		zv.Assert(p == nil, "self insertion: no panic")
		for _, e := range hm.GetValue() {
			zv.Assert(e != r.Element(hm), "a dictionary stored into itself (写入) is stored as a copy")
		}
	default:
		outer := value.NewArray([]r.Element{})
		inner := value.NewHashMap([]value.KVPair{{Key: "甲", Value: outer}})
		func() {
			defer func() { p = recover() }()
			outer.ExecMethod("后增", []r.Element{inner})
		}()
		zv.Assert(p == nil, "indirect self insertion: no panic")
		in2, ok := outer.GetValue()[0].(*value.HashMap)
		zv.Assert(ok && in2.GetValue()["甲"] != r.Element(outer), "a list stored into a dictionary it holds is stored as a copy (no cycle through two values)")
	}
	zv.Reach("done")
}

// netLib: the library types of pkg/common, registered as stdlib/http does.
func netLib() *r.Library {
	lib := r.NewLibrary("@网络")
	lib.RegisterClass("HTTP请求", common.CLASS_HttpRequest)
	lib.RegisterClass("HTTP响应", common.CLASS_HttpResponse)
	return lib
}

// H_LibraryTypes: constructors of the library types with 0..3 arguments of every kind.
func H_LibraryTypes() {
	cls := []string{"HTTP请求", "HTTP响应"}[zv.Choose(2)]
	n := zv.Choose(4)
	names := []string{"A", "I", "J"}
	call := "（新建" + cls + "）"
	if n > 0 {
		call = "（新建" + cls + "：" + names[0]
		for k := 1; k < n; k++ {
			call += "、" + names[k]
		}
		call += "）"
	}
	small := func(name string) r.Element {
		switch zv.Choose(4) {
		case 0:
			return value.NewNumber(zv.Float64(name))
		case 1:
			return value.NewString(textPool())
		case 2:
			return value.NewHashMap([]value.KVPair{{Key: "甲", Value: value.NewNumber(1)}})
		}
		return value.NewNull()
	}
	in := r.ElementMap{"A": value.NewNull(), "I": value.NewNull(), "J": value.NewNull()}
	for k := 0; k < n; k++ {
		in[names[k]] = small(names[k])
	}
	var res r.Element
	var err error
	var p interface{}
	func() {
		defer func() { p = recover() }()
		res, err = exec.NewInterpreter("verif").SetExternalLibs([]*r.Library{netLib()}).LoadScript([]rune("导入《@网络》\n输入A、I、J\n令O = " + call + "\n输出 1")).Execute(in)
	}()
	zv.Assert(p == nil, "library type: no Go panic: "+call)
	zv.Assert(err != nil || res != nil, "library type: a value or an error: "+call)
	zv.Reach("done")
}

// W_Members_Witness: vacuity guard.
func W_Members_Witness() {
	recv := value.NewArray([]r.Element{value.NewNumber(1)})
	f := zv.Float64("i")
	_, err := recv.ExecMethod("交换", []r.Element{value.NewNumber(f), value.NewNumber(1)})
	zv.Assert(err != nil, "witness")
}
