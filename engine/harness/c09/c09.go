// Package c09: exceptions reach the nearest matching handler and unwind cleanly.
package c09

import (
	"fmt"

	"github.com/DemoHn/Zn/pkg/exec"
	r "github.com/DemoHn/Zn/pkg/runtime"
	"github.com/DemoHn/Zn/pkg/syntax"
	"github.com/DemoHn/Zn/pkg/syntax/zh"
	"github.com/DemoHn/Zn/pkg/value"
	"zsym/zv"
)

var trace []float64

func install() {
	trace = nil
	exec.GlobalValues["显示"] = value.NewFunction(func(receiver r.Element, params []r.Element) (r.Element, error) {
		for _, p := range params {
			switch v := p.(type) {
			case *value.Number:
				trace = append(trace, v.GetValue())
			case *value.String:
				if v.GetValue() == "boom" {
					trace = append(trace, 777)
				} else {
					trace = append(trace, 778)
				}
			default:
				trace = append(trace, -1)
			}
		}
		return value.NewNull(), nil
	})
}

const (
	hNone    = iota
	hDefault // 拦截异常
	hCustom  // 拦截甲异常
)

const (
	rThrowDefault = iota
	rThrowCustom
	rDivZero
	rUndefined
	rBuiltin
	nRaiseKinds
)

func raiseStmt(kind int) string {
	switch kind {
	case rThrowDefault:
		return "抛出异常：“boom”！"
	case rThrowCustom:
		return "抛出甲异常：“boom”！"
	case rDivZero:
		return "令W = 1 / Z"
	case rUndefined:
		return "令W = 未有此名"
	}
	return "令W = 以“abc”（取样：0、1）"
}

// class of the raised exception as far as handler matching goes
func raisedIsCustom(kind int) bool { return kind == rThrowCustom }

func guard(ind string, d, k int, kind int) string {
	return fmt.Sprintf("%s如果 D == %d 且 K == %d：\n%s    %s\n", ind, d, k, ind, raiseStmt(kind))
}

func handler(ind string, h int, level int, withOutput bool) string {
	return handlerX(ind, h, level, withOutput, false)
}

// handlerX: with reraise the handler ends by raising a new default exception
func handlerX(ind string, h int, level int, withOutput bool, reraise bool) string {
	if h == hNone {
		return ""
	}
	cls := "异常"
	if h == hCustom {
		cls = "甲异常"
	}
	s := fmt.Sprintf("%s拦截%s：\n%s    （显示：%d）\n%s    （显示：其内容）\n", ind, cls, ind, level*10+9, ind)
	if reraise {
		s += fmt.Sprintf("%s    抛出异常：“boom”！\n", ind)
		return s
	}
	if withOutput {
		s += fmt.Sprintf("%s    输出 %d\n", ind, level*100+90)
	}
	return s
}

type config struct {
	h          [3]int
	kind       int
	handlerOut bool
	reraise    bool // the handler of F2 ends by raising again
	ctx        int  // how F1 calls F2: 0 plain, 1 in a 遍历 loop, 2 in a 每当 loop, 3 in a 如果 block
	ext        bool // F2 lives in an imported module
}

func f2Source(c config) string {
	return "如何F2？\n    输入D、K、Z\n    （显示：21）\n" + guard("    ", 2, 1, c.kind) + "    （显示：22）\n" + guard("    ", 2, 2, c.kind) + "    （显示：23）\n    输出 200\n" + handlerX("    ", c.h[2], 2, c.handlerOut, c.reraise)
}

func callF2(c config) string {
	switch c.ctx {
	case 1:
		return "    令R2 = 0\n    以项遍历【7】：\n        令私有二 = 项\n        R2 = （F2：D、K、Z）\n"
	case 2:
		return "    令R2 = 0\n    令轮 = 0\n    每当 轮 == 0：\n        轮 = 1\n        令私有二 = 7\n        R2 = （F2：D、K、Z）\n"
	case 3:
		return "    令R2 = 0\n    如果 真：\n        令私有二 = 7\n        R2 = （F2：D、K、Z）\n"
	}
	return "    令R2 = （F2：D、K、Z）\n"
}

const probes = "如何探？\n    输出 私有\n    拦截异常：\n        输出 -5\n如何探二？\n    输出 私有二\n    拦截异常：\n        输出 -6\n如何探三？\n    输出 入参\n    拦截异常：\n        输出 -7\n"

func source(c config) string {
	s := ""
	if c.ext {
		s += "导入“库”\n"
	}
	s += "输入D、K、Z\n" + probes
	s += "定义甲异常：\n    其内容设为“”\n如何新建甲异常？\n    输入M\n    其内容 = M\n"
	if !c.ext {
		s += f2Source(c)
	}
	s += "如何F1？\n    输入入参\n    令本地 = 11\n    令私有 = 12\n    （显示：本地）\n" + guard("    ", 1, 1, c.kind) + callF2(c) + "    （显示：R2）\n    （显示：本地）\n" + guard("    ", 1, 2, c.kind) + "    （显示：13）\n    输出 100\n" + handler("    ", c.h[1], 1, c.handlerOut)
	s += "令本地 = 1\n（显示：本地）\n" + guard("", 0, 1, c.kind) + "令R1 = （F1：31）\n（显示：R1）\n（显示：本地）\n" + guard("", 0, 2, c.kind) + "（显示：（探））\n（显示：（探二））\n（显示：（探三））\n（显示：3）\n输出 5\n" + handler("", c.h[0], 0, c.handlerOut)
	return s
}

// ---- Go twin: panic / recover per body

type raised struct{ custom, boom bool }

type twin struct {
	c     config
	d, k  int
	trace []float64
}

func (t *twin) maybeRaise(d, k int) {
	if t.d == d && t.k == k {
		panic(raised{raisedIsCustom(t.c.kind), t.c.kind == rThrowDefault || t.c.kind == rThrowCustom})
	}
}

// body runs level's body under its handler; returns the body's value and
// whether it produced one (a handler without 输出 yields 空).
func (t *twin) body(level int, run func() float64) (val float64, isNull bool) {
	h := t.c.h[level]
	defer func() {
		if x := recover(); x != nil {
			ex, ok := x.(raised)
			if !ok {
				panic(x)
			}
			matches := (h == hDefault && !ex.custom) || (h == hCustom && ex.custom)
			if !matches {
				panic(x)
			}
			t.trace = append(t.trace, float64(level*10+9))
			if ex.boom {
				t.trace = append(t.trace, 777)
			} else {
				t.trace = append(t.trace, 778)
			}
			if level == 2 && t.c.reraise {
				panic(raised{false, true})
			}
			if t.c.handlerOut {
				val, isNull = float64(level*100+90), false
			} else {
				val, isNull = 0, true
			}
		}
	}()
	return run(), false
}

func (t *twin) f2() (float64, bool) {
	return t.body(2, func() float64 {
		t.trace = append(t.trace, 21)
		t.maybeRaise(2, 1)
		t.trace = append(t.trace, 22)
		t.maybeRaise(2, 2)
		t.trace = append(t.trace, 23)
		return 200
	})
}

func (t *twin) f1() (float64, bool) {
	return t.body(1, func() float64 {
		t.trace = append(t.trace, 11)
		t.maybeRaise(1, 1)
		r2, null := t.f2()
		if null {
			t.trace = append(t.trace, -1)
		} else {
			t.trace = append(t.trace, r2)
		}
		t.trace = append(t.trace, 11)
		t.maybeRaise(1, 2)
		t.trace = append(t.trace, 13)
		return 100
	})
}

func (t *twin) main() (val float64, isNull bool, uncaught bool) {
	defer func() {
		if x := recover(); x != nil {
			if _, ok := x.(raised); ok {
				uncaught = true
				return
			}
			panic(x)
		}
	}()
	val, isNull = t.body(0, func() float64 {
		t.trace = append(t.trace, 1)
		t.maybeRaise(0, 1)
		r1, null := t.f1()
		if null {
			t.trace = append(t.trace, -1)
		} else {
			t.trace = append(t.trace, r1)
		}
		t.trace = append(t.trace, 1)
		t.maybeRaise(0, 2)
		t.trace = append(t.trace, -5, -6, -7, 3)
		return 5
	})
	return
}

func execute(src string, in r.ElementMap) (res r.Element, err error, depth int, p interface{}) {
	defer func() { p = recover() }()
	install()
	parser := syntax.NewParser([]rune(src), zh.NewParserZH())
	program, perr := parser.Parse()
	if perr != nil {
		return nil, perr, -1, nil
	}
	vm := r.InitVM(exec.GlobalValues)
	vm.SetModuleCodeFinder(func(isMain bool, info r.LibNameInfo) ([]rune, error) {
		if isMain {
			return []rune(src), nil
		}
		if info.LibType == r.LIB_TYPE_STD {
			return []rune{}, nil
		}
		if info.OriginalName == "库" && libSource != "" {
			return []rune(libSource), nil
		}
		return nil, fmt.Errorf("no such module")
	})
	res, err = exec.EvalMainModule(vm, program, in)
	depth = len(vm.GetCallStack())
	return
}

var libSource string

// H_RaisePoints: three nested bodies, handlers at any subset of levels (class
// matching or not), five raise kinds, the raise point (body D, statement K) is
// a symbolic input.
func H_RaisePoints() {
	var c config
	for l := 0; l < 3; l++ {
		c.h[l] = zv.Choose(3)
	}
	c.kind = zv.Choose(nRaiseKinds)
	c.handlerOut = zv.Choose(2) == 0
	d := zv.Int("D", 0, 3) // 3: nothing raises
	k := zv.Int("K", 1, 2)
	// one path per raise point (the twin needs it concrete)
	dd, kk := 3, 1
	for x := 0; x <= 3; x++ {
		if d == x {
			dd = x
		}
	}
	for x := 1; x <= 2; x++ {
		if k == x {
			kk = x
		}
	}
	compare(c, r.ElementMap{"D": value.NewNumber(float64(d)), "K": value.NewNumber(float64(k)), "Z": value.NewNumber(0)}, dd, kk, "")
}

func compare(c config, in r.ElementMap, dd, kk int, tag string) {
	src := source(c)
	libSource = ""
	if c.ext {
		libSource = f2Source(c)
	}
	res, err, depth, p := execute(src, in)
	t := &twin{c: c, d: dd, k: kk}
	val, isNull, uncaught := t.main()
	zv.Observe("config", fmt.Sprintf("handlers %d%d%d kind %d out %v raise %d/%d ctx %d ext %v", c.h[0], c.h[1], c.h[2], c.kind, c.handlerOut, dd, kk, c.ctx, c.ext))
	zv.Assert(p == nil, "no Go panic"+tag)
	same := len(trace) == len(t.trace)
	if same {
		for i := range trace {
			if trace[i] != t.trace[i] {
				same = false
			}
		}
	}
	if !same {
		zv.Observe("got", fmt.Sprint(trace))
		zv.Observe("want", fmt.Sprint(t.trace))
		zv.Observe("err", fmt.Sprint(err))
	}
	zv.Assert(same, "statements run / skipped / handler entered exactly as with panic-recover per body"+tag)
	if uncaught {
		zv.Reach("uncaught")
		zv.Assert(err != nil, "an exception no handler matches ends the program with an error"+tag)
		return
	}
	zv.Reach("completed")
	zv.Assert(err == nil, "a handled exception does not end the program"+tag)
	if isNull {
		_, ok := res.(*value.Null)
		zv.Assert(ok, "a handler without 输出 makes the body yield 空"+tag)
	} else {
		n, ok := res.(*value.Number)
		zv.Assert(ok && n.GetValue() == val, "value of the program (handler's 输出 value becomes the value of that body)"+tag)
	}
	zv.Assert(depth == 0, "call depth is back to zero after the run"+tag)
}

// H_RaiseContexts: the call that fails (or not) is made from inside a loop or
// a block, to a method of this module or of an imported one; besides the
// statement trace, names declared by the finished bodies must be invisible to
// the caller afterwards (probe methods) and the caller's own names intact.
func H_RaiseContexts() {
	var c config
	c.h[0] = zv.Choose(2)
	c.h[1] = zv.Choose(3)
	c.h[2] = zv.Choose(2)
	c.kind = zv.Choose(nRaiseKinds)
	c.handlerOut = zv.Choose(2) == 0
	c.ctx = zv.Choose(4)
	c.ext = zv.Choose(2) == 1
	c.reraise = c.h[2] != hNone && zv.Choose(2) == 1
	if zv.Tier() == 0 && c.ctx == 0 && !c.ext && !c.reraise {
		return // H_RaisePoints covers the plain same-module call
	}
	if c.ext && c.kind == rThrowCustom {
		return // the class 甲异常 is private to the main module
	}
	raisePoints := 3
	if zv.Tier() == 1 {
		raisePoints = 7
	}
	pt := zv.Int("P", 0, raisePoints-1)
	points := [][2]int{{2, 1}, {2, 2}, {3, 1}, {1, 1}, {1, 2}, {0, 1}, {0, 2}}
	dd, kk := 3, 1
	for x := 0; x < raisePoints; x++ {
		if pt == x {
			dd, kk = points[x][0], points[x][1]
		}
	}
	compare(c, r.ElementMap{"D": value.NewNumber(float64(dd)), "K": value.NewNumber(float64(kk)), "Z": value.NewNumber(0)}, dd, kk, "[contexts]")
}

// W_Witness: vacuity guard.
func W_Witness() {
	c := config{h: [3]int{hDefault, hNone, hNone}, kind: rThrowDefault, handlerOut: true}
	d := zv.Int("D", 0, 3)
	in := r.ElementMap{"D": value.NewNumber(float64(d)), "K": value.NewNumber(1), "Z": value.NewNumber(0)}
	libSource = ""
	res, _, _, _ := execute(source(c), in)
	n, ok := res.(*value.Number)
	zv.Assert(ok && n.GetValue() == 5, "witness")
}
