// Package c17: source files are decoded losslessly or rejected.
package c17

import (
	"io"

	zio "github.com/DemoHn/Zn/pkg/io"
	"zsym/zv"
)

// symReader serves a byte string the way a regular file does: full reads
// until the data is exhausted, then io.EOF.
type symReader struct {
	data []byte
	pos  int
}

func (s *symReader) Read(p []byte) (int, error) {
	if s.pos >= len(s.data) {
		return 0, io.EOF
	}
	n := copy(p, s.data[s.pos:])
	s.pos += n
	return n, nil
}

// strict UTF-8 (RFC 3629): no overlongs, no surrogates, <= U+10FFFF.
func refDecode(b []byte) ([]rune, bool) {
	var out []rune
	i := 0
	for i < len(b) {
		c := b[i]
		switch {
		case c < 0x80:
			out = append(out, rune(c))
			i++
		case c >= 0xC2 && c <= 0xDF:
			if i+1 >= len(b) || !pureCont(b[i+1]) {
				return nil, false
			}
			out = append(out, rune(c&0x1F)<<6|rune(b[i+1]&0x3F))
			i += 2
		case c >= 0xE0 && c <= 0xEF:
			if i+2 >= len(b) || !pureCont(b[i+1]) || !pureCont(b[i+2]) {
				return nil, false
			}
			if c == 0xE0 && b[i+1] < 0xA0 {
				return nil, false
			}
			if c == 0xED && b[i+1] > 0x9F {
				return nil, false
			}
			out = append(out, rune(c&0x0F)<<12|rune(b[i+1]&0x3F)<<6|rune(b[i+2]&0x3F))
			i += 3
		case c >= 0xF0 && c <= 0xF4:
			if i+3 >= len(b) || !pureCont(b[i+1]) || !pureCont(b[i+2]) || !pureCont(b[i+3]) {
				return nil, false
			}
			if c == 0xF0 && b[i+1] < 0x90 {
				return nil, false
			}
			if c == 0xF4 && b[i+1] > 0x8F {
				return nil, false
			}
			out = append(out, rune(c&0x07)<<18|rune(b[i+1]&0x3F)<<12|rune(b[i+2]&0x3F)<<6|rune(b[i+3]&0x3F))
			i += 4
		default:
			return nil, false
		}
	}
	return out, true
}

func pureCont(c byte) bool { return c >= 0x80 && c <= 0xBF }

func sameRunes(a, b []rune) bool {
	if len(a) != len(b) {
		return false
	}
	for k := range a {
		if a[k] != b[k] {
			return false
		}
	}
	return true
}

func symBytes(maxN int) []byte {
	n := zv.Choose(maxN + 1)
	b := make([]byte, n)
	for k := range b {
		b[k] = zv.Byte("b")
	}
	return b
}

func check(got []rune, err error, p interface{}, data []byte, tag string) {
	zv.Assert(p == nil, tag+": no panic")
	want, valid := refDecode(data)
	if !valid {
		zv.Reach("invalid")
		zv.Assert(err != nil, tag+": a file that is not valid UTF-8 is rejected with an error")
		return
	}
	zv.Reach("valid")
	if len(want) > 0 && want[0] == 0xFEFF {
		want = want[1:]
	}
	zv.Assert(err == nil, tag+": valid UTF-8 is accepted")
	zv.Assert(sameRunes(got, want), tag+": decoded losslessly (one leading BOM removed)")
}

// H_FileStream_Boundary: the real ReadAll over 4096-P concrete ASCII bytes
// followed by up to N symbolic bytes, so that multi-byte characters straddle
// the real 4096-byte block boundary at every offset.
func H_FileStream_Boundary() {
	N := 4
	if zv.Tier() == 1 {
		N = 5
	}
	gap := 1 + zv.Choose(3) // the boundary falls 1..3 bytes into the symbolic part
	tail := symBytes(N)
	data := make([]byte, 0, 4096+N)
	for k := 0; k < 4096-gap; k++ {
		data = append(data, 'a')
	}
	data = append(data, tail...)
	f := zio.ZZVerifNewFileStream(&symReader{data: data})
	var got []rune
	var err error
	var p interface{}
	func() {
		defer func() { p = recover() }()
		got, err = f.ReadAll()
	}()
	check(got, err, p, data, "boundary")
}

// H_FileStream_ReadAll: the real ReadAll (one 4096-byte block for these sizes).
func H_FileStream_ReadAll() {
	N := 4
	if zv.Tier() == 1 {
		N = 5
	}
	data := symBytes(N)
	f := zio.ZZVerifNewFileStream(&symReader{data: data})
	var got []rune
	var err error
	var p interface{}
	func() {
		defer func() { p = recover() }()
		got, err = f.ReadAll()
	}()
	check(got, err, p, data, "ReadAll")
}

// chunkReader hands out at most `chunk` bytes per Read although more follow (a
// pipe, a terminal, a network file system): a legitimate io.Reader.
type chunkReader struct {
	data  []byte
	pos   int
	chunk int
}

func (s *chunkReader) Read(p []byte) (int, error) {
	if s.pos >= len(s.data) {
		return 0, io.EOF
	}
	n := s.chunk
	if n > len(p) {
		n = len(p)
	}
	if n > len(s.data)-s.pos {
		n = len(s.data) - s.pos
	}
	copy(p, s.data[s.pos:s.pos+n])
	s.pos += n
	return n, nil
}

// H_FileStream_ShortReads: the same bytes read in pieces of 1, 2 or 3 bytes
// decode to the same text (or are rejected) as when read in one block.
func H_FileStream_ShortReads() {
	N := 4
	if zv.Tier() == 1 {
		N = 5
	}
	data := symBytes(N)
	chunk := 1 + zv.Choose(3)
	f := zio.ZZVerifNewFileStream(&chunkReader{data: data, chunk: chunk})
	var got []rune
	var err error
	var p interface{}
	func() {
		defer func() { p = recover() }()
		got, err = f.ReadAll()
	}()
	check(got, err, p, data, "short reads")
}

// H_ByteStream: input-variable text / script sources.
func H_ByteStream() {
	N := 3
	if zv.Tier() == 1 {
		N = 5
	}
	data := symBytes(N)
	b := zio.ZZVerifNewByteStream(&symReader{data: data}, len(data))
	var got []rune
	var err error
	var p interface{}
	func() {
		defer func() { p = recover() }()
		got, err = b.ReadAll()
	}()
	zv.Assert(p == nil, "ByteStream: no panic")
	want, valid := refDecode(data)
	if !valid {
		zv.Reach("invalid")
		zv.Assert(err != nil, "ByteStream: text that is not valid UTF-8 is rejected with an error")
		return
	}
	zv.Reach("valid")
	zv.Assert(err == nil && sameRunes(got, want), "ByteStream: decoded losslessly")
}

// W_Witness: vacuity guard.
func W_Witness() {
	data := []byte{zv.Byte("b")}
	f := zio.ZZVerifNewFileStream(&symReader{data: data})
	got, _ := f.ReadAll()
	zv.Assert(len(got) == 0, "witness")
}
