// Package c02: branches, loops and 输出 follow the documented control flow.
//
// Abstract programs (a tiny control-flow language) are rendered to Zn source
// and, independently, executed by a reference evaluator that uses Go's own
// if/for/break/continue/return.  Conditions, loop limits, list lengths and
// exit triggers are symbolic inputs.
package c02

import (
	"fmt"
	"strings"

	"github.com/DemoHn/Zn/pkg/exec"
	r "github.com/DemoHn/Zn/pkg/runtime"
	"github.com/DemoHn/Zn/pkg/value"
	"zsym/zv"
)

type kind int

const (
	kTrace   kind = iota
	kIf           // cond, then
	kIfElse       // cond, then, else
	kIfElif       // cond, then, cond2, elif, else
	kWhile        // limit var, body
	kForList      // body; element traced
	kForListIdx
	kForDict
	kCall // method call; body is the method body
	kBreak
	kContinue
	kReturn
	kGuard // 如果 cond： child   (an exit guarded by a symbolic condition)
)

type node struct {
	k       kind
	id      int // trace id / return value / variable suffix
	cond    int // index of bool input
	cond2   int
	a, b, c []*node
}

type gen struct {
	nTrace  int
	nCond   int
	nLoop   int
	nMethod int
	methods []*node
}

func (g *gen) trace() *node { g.nTrace++; return &node{k: kTrace, id: g.nTrace} }
func (g *gen) newCond() int { g.nCond++; return g.nCond }

// wrap builds construct k around body.
func (g *gen) wrap(k kind, body []*node) *node {
	switch k {
	case kIf:
		return &node{k: kIf, cond: g.newCond(), a: body}
	case kIfElse:
		return &node{k: kIfElse, cond: g.newCond(), a: body, b: []*node{g.trace()}}
	case kIfElif:
		return &node{k: kIfElif, cond: g.newCond(), cond2: g.newCond(), a: []*node{g.trace()}, b: body, c: []*node{g.trace()}}
	case kWhile, kForList, kForListIdx, kForDict:
		g.nLoop++
		return &node{k: k, id: g.nLoop, a: body}
	case kCall:
		g.nMethod++
		m := &node{k: kCall, id: g.nMethod, a: append(body, &node{k: kReturn, id: 100 + g.nMethod})}
		g.methods = append(g.methods, m)
		return m
	}
	panic("wrap")
}

// ---------------------------------------------------------------- rendering

func ind(n int) string { return strings.Repeat("    ", n) }

type sbuf struct{ s string }

func (b *sbuf) add(f string, a ...interface{}) { b.s += fmt.Sprintf(f, a...) }

func render(sb *sbuf, ns []*node, depth int) {
	for _, n := range ns {
		switch n.k {
		case kTrace:
			sb.add("%s（显示：%d）\n", ind(depth), n.id)
		case kIf, kIfElse, kIfElif, kGuard:
			sb.add("%s如果 B%d：\n", ind(depth), n.cond)
			render(sb, n.a, depth+1)
			if n.k == kIfElif {
				sb.add("%s再如 B%d：\n", ind(depth), n.cond2)
				render(sb, n.b, depth+1)
				sb.add("%s否则：\n", ind(depth))
				render(sb, n.c, depth+1)
			}
			if n.k == kIfElse {
				sb.add("%s否则：\n", ind(depth))
				render(sb, n.b, depth+1)
			}
		case kWhile:
			sb.add("%s令I%d = 0\n", ind(depth), n.id)
			// every test of the condition leaves a mark in the trace
			sb.add("%s每当 （测：I%d < N%d、%d）：\n", ind(depth), n.id, n.id, 9000+n.id)
			sb.add("%sI%d = I%d + 1\n", ind(depth+1), n.id, n.id)
			render(sb, n.a, depth+1)
		case kForList:
			sb.add("%s以V%d遍历L%d：\n", ind(depth), n.id, n.id)
			sb.add("%s（显示：V%d）\n", ind(depth+1), n.id)
			render(sb, n.a, depth+1)
		case kForListIdx:
			sb.add("%s以K%d、V%d遍历L%d：\n", ind(depth), n.id, n.id, n.id)
			sb.add("%s（显示：K%d * 1000 + V%d）\n", ind(depth+1), n.id, n.id)
			render(sb, n.a, depth+1)
		case kForDict:
			sb.add("%s以K%d、V%d遍历D%d：\n", ind(depth), n.id, n.id, n.id)
			sb.add("%s（显示：V%d）\n", ind(depth+1), n.id)
			render(sb, n.a, depth+1)
		case kCall:
			sb.add("%s（显示：（F%d））\n", ind(depth), n.id)
		case kBreak:
			sb.add("%s结束循环\n", ind(depth))
		case kContinue:
			sb.add("%s继续循环\n", ind(depth))
		case kReturn:
			sb.add("%s输出 %d\n", ind(depth), n.id)
		}
	}
}

type program struct {
	g    *gen
	main []*node
	last int // value of the final expression statement (0: none)
}

func (p *program) source() string {
	sb := &sbuf{}
	var names []string
	for k := 1; k <= p.g.nCond; k++ {
		names = append(names, fmt.Sprintf("B%d", k))
	}
	for k := 1; k <= p.g.nLoop; k++ {
		names = append(names, fmt.Sprintf("N%d", k), fmt.Sprintf("L%d", k), fmt.Sprintf("D%d", k))
	}
	if len(names) > 0 {
		sb.add("%s", "输入"+strings.Join(names, "、")+"\n")
	}
	for _, m := range p.g.methods {
		sb.add("如何F%d？\n", m.id)
		render(sb, m.a, 1)
	}
	render(sb, p.main, 0)
	if p.last != 0 {
		sb.add("%d\n", p.last)
	}
	return sb.s
}

// ---------------------------------------------------------------- reference evaluator (Go's own control flow)

type env struct {
	conds  []bool
	limits []int
	lists  [][]float64
	dicts  [][]float64
	trace  []float64
}

type signal int

const (
	sNone signal = iota
	sBreak
	sContinue
	sReturn
)

func (e *env) run(ns []*node) (signal, float64) {
	for _, n := range ns {
		switch n.k {
		case kTrace:
			e.trace = append(e.trace, float64(n.id))
		case kIf, kGuard:
			if e.conds[n.cond] {
				if s, v := e.run(n.a); s != sNone {
					return s, v
				}
			}
		case kIfElse:
			var s signal
			var v float64
			if e.conds[n.cond] {
				s, v = e.run(n.a)
			} else {
				s, v = e.run(n.b)
			}
			if s != sNone {
				return s, v
			}
		case kIfElif:
			var s signal
			var v float64
			if e.conds[n.cond] {
				s, v = e.run(n.a)
			} else if e.conds[n.cond2] {
				s, v = e.run(n.b)
			} else {
				s, v = e.run(n.c)
			}
			if s != sNone {
				return s, v
			}
		case kWhile:
			i := 0
		loopW:
			for {
				e.trace = append(e.trace, float64(9000+n.id)) // the condition is tested before every pass - and only then
				if !(i < e.limits[n.id]) {
					break
				}
				i++
				s, v := e.run(n.a)
				switch s {
				case sBreak:
					break loopW
				case sContinue:
					continue
				case sReturn:
					return s, v
				}
			}
		case kForList, kForListIdx:
		loopL:
			for idx, x := range e.lists[n.id] {
				if n.k == kForListIdx {
					e.trace = append(e.trace, float64(idx+1)*1000+x)
				} else {
					e.trace = append(e.trace, x)
				}
				s, v := e.run(n.a)
				switch s {
				case sBreak:
					break loopL
				case sContinue:
					continue
				case sReturn:
					return s, v
				}
			}
		case kForDict:
		loopD:
			for _, x := range e.dicts[n.id] {
				e.trace = append(e.trace, x)
				s, v := e.run(n.a)
				switch s {
				case sBreak:
					break loopD
				case sContinue:
					continue
				case sReturn:
					return s, v
				}
			}
		case kCall:
			// 输出 ends the method body only; the call yields its value
			_, v := e.run(n.a)
			e.trace = append(e.trace, v)
		case kBreak:
			return sBreak, 0
		case kContinue:
			return sContinue, 0
		case kReturn:
			return sReturn, float64(n.id)
		}
	}
	return sNone, 0
}

// ---------------------------------------------------------------- running the real interpreter

var traceSink []float64

func installTrace() {
	traceSink = nil
	exec.GlobalValues["显示"] = value.NewFunction(func(receiver r.Element, params []r.Element) (r.Element, error) {
		for _, p := range params {
			if n, ok := p.(*value.Number); ok {
				traceSink = append(traceSink, n.GetValue())
			} else {
				traceSink = append(traceSink, -1)
			}
		}
		return value.NewNull(), nil
	})
	exec.GlobalValues["测"] = value.NewFunction(func(receiver r.Element, params []r.Element) (r.Element, error) {
		if len(params) == 2 {
			if n, ok := params[1].(*value.Number); ok {
				traceSink = append(traceSink, n.GetValue())
			}
			return params[0], nil
		}
		return value.NewNull(), nil
	})
}

var dictKeys = []string{"甲", "乙", "丙"}

func symInputs(p *program) (r.ElementMap, *env) {
	in := r.ElementMap{}
	e := &env{conds: make([]bool, p.g.nCond+1), limits: make([]int, p.g.nLoop+1), lists: make([][]float64, p.g.nLoop+1), dicts: make([][]float64, p.g.nLoop+1)}
	for k := 1; k <= p.g.nCond; k++ {
		b := zv.Bool(fmt.Sprintf("B%d", k))
		e.conds[k] = b
		in[fmt.Sprintf("B%d", k)] = value.NewBool(b)
	}
	maxN := 2
	if zv.Tier() == 1 {
		maxN = 3
	}
	used := map[kind]map[int]bool{}
	var mark func(ns []*node)
	mark = func(ns []*node) {
		for _, n := range ns {
			if used[n.k] == nil {
				used[n.k] = map[int]bool{}
			}
			used[n.k][n.id] = true
			mark(n.a)
			mark(n.b)
			mark(n.c)
		}
	}
	mark(p.main)
	for _, m := range p.g.methods {
		mark(m.a)
	}
	for k := 1; k <= p.g.nLoop; k++ {
		name := fmt.Sprintf("%d", k)
		// only the input the loop actually uses is symbolic
		n := 0
		if used[kWhile][k] {
			n = zv.Int("N"+name, 0, maxN)
		}
		e.limits[k] = n
		in["N"+name] = value.NewNumber(float64(n))
		ll := 0
		if used[kForList][k] || used[kForListIdx][k] {
			ll = zv.Choose(maxN + 1)
		}
		items := []r.Element{}
		for j := 0; j < ll; j++ {
			x := float64(10*k + j + 1)
			e.lists[k] = append(e.lists[k], x)
			items = append(items, value.NewNumber(x))
		}
		in["L"+name] = value.NewArray(items)
		dl := 0
		if used[kForDict][k] {
			dl = zv.Choose(maxN + 1)
		}
		var kv []value.KVPair
		for j := 0; j < dl; j++ {
			x := float64(50*k + j + 1)
			e.dicts[k] = append(e.dicts[k], x)
			kv = append(kv, value.KVPair{Key: dictKeys[j], Value: value.NewNumber(x)})
		}
		in["D"+name] = value.NewHashMap(kv)
	}
	return in, e
}

func check(p *program, tag string) {
	src := p.source()
	in, e := symInputs(p)
	installTrace()
	var res r.Element
	var err error
	var pn interface{}
	func() {
		defer func() { pn = recover() }()
		res, err = exec.NewInterpreter("v").LoadScript([]rune(src)).Execute(in)
	}()
	got := traceSink
	sig, val := e.run(p.main)
	zv.Assert(pn == nil, tag+": no panic\n"+src)
	zv.Assert(err == nil, tag+": program runs without error\n"+src)
	ok := len(got) == len(e.trace)
	if ok {
		for k := range got {
			if got[k] != e.trace[k] {
				ok = false
			}
		}
	}
	zv.Assert(ok, tag+": same sequence of effects as the reference control flow\n"+src)
	want := float64(p.last)
	if sig == sReturn {
		want = val
		zv.Reach("returned")
	} else {
		zv.Reach("fell-through")
	}
	nv, isNum := res.(*value.Number)
	zv.Assert(isNum && nv.GetValue() == want, tag+": program value (输出 value, else the final expression statement)\n"+src)
}

var constructs = []kind{kIf, kIfElse, kIfElif, kWhile, kForList, kForListIdx, kForDict, kCall}
var exits = []kind{kTrace, kBreak, kContinue, kReturn}

func isLoop(k kind) bool { return k == kWhile || k == kForList || k == kForListIdx || k == kForDict }

// nest builds: T; outer{ T; inner{ T; [如果 B: exit]; T }; T }; T; final
func nest(shape []kind, exit kind) *program {
	g := &gen{}
	var body []*node
	body = append(body, g.trace())
	if exit != kTrace {
		ex := &node{k: exit, id: 55}
		body = append(body, &node{k: kGuard, cond: g.newCond(), a: []*node{ex}})
	}
	body = append(body, g.trace())
	for k := len(shape) - 1; k >= 0; k-- {
		w := g.wrap(shape[k], body)
		body = []*node{g.trace(), w, g.trace()}
	}
	return &program{g: g, main: body, last: 77}
}

func validExit(shape []kind, exit kind) bool {
	if exit != kBreak && exit != kContinue {
		return true
	}
	// the innermost enclosing loop must not be cut off by a method boundary
	for k := len(shape) - 1; k >= 0; k-- {
		if shape[k] == kCall {
			return false
		}
		if isLoop(shape[k]) {
			return true
		}
	}
	return false
}

// H_Nest2: every construct nested in every construct, every exit kind placed
// (behind a symbolic guard) in the innermost body.
func H_Nest2() {
	outer := constructs[zv.Choose(len(constructs))]
	inner := constructs[zv.Choose(len(constructs))]
	exit := exits[zv.Choose(len(exits))]
	shape := []kind{outer, inner}
	if !validExit(shape, exit) {
		zv.Stop()
	}
	check(nest(shape, exit), "nest2")
}

// H_Single: single constructs with every exit kind.
func H_Single() {
	c := constructs[zv.Choose(len(constructs))]
	exit := exits[zv.Choose(len(exits))]
	shape := []kind{c}
	if !validExit(shape, exit) {
		zv.Stop()
	}
	check(nest(shape, exit), "single")
}

// T_Nest3: depth 3 (thorough).
func T_Nest3() {
	a := constructs[zv.Choose(len(constructs))]
	b := constructs[zv.Choose(len(constructs))]
	c := constructs[zv.Choose(len(constructs))]
	exit := exits[zv.Choose(len(exits))]
	shape := []kind{a, b, c}
	if !validExit(shape, exit) {
		zv.Stop()
	}
	check(nest(shape, exit), "nest3")
}

// H_SignalAcrossCall: 结束循环 / 继续循环 act on the innermost enclosing loop of
// their own body only.  A method body that executes one of them outside any
// loop of its own is called from a loop of the caller (every loop kind): the
// caller's loop must not be ended / continued by it - the call fails instead,
// exactly as the same statement does at the top level of a program.
func H_SignalAcrossCall() {
	stmt := []string{"结束循环", "继续循环"}[zv.Choose(2)]
	loop := []string{
		"以V遍历【1，2，3】：\n",
		"以K、V遍历【甲 = 1，乙 = 2】：\n",
		"令I = 0\n每当 I < 3：\n    I = I + 1\n",
	}[zv.Choose(3)]
	nested := zv.Choose(2) == 1 // the statement sits inside a branch of the method body
	b := zv.Bool("B")
	where := zv.Choose(3) // method body / handler of the method body / constructor body
	if where > 0 {
		signalElsewhere(stmt, loop, where, b)
		return
	}
	body := "    （显示：1）\n"
	if nested {
		body += "    如果 B：\n        " + stmt + "\n"
	} else {
		body += "    如果 B：\n        " + stmt + "\n    （显示：2）\n"
	}
	src := "输入B\n如何F？\n" + body + "    输出 7\n" + loop + "    （显示：10）\n    令R = （F）\n    （显示：R）\n（显示：20）\n输出 5"
	installTrace()
	var res r.Element
	var err error
	var pn interface{}
	func() {
		defer func() { pn = recover() }()
		res, err = exec.NewInterpreter("v").LoadScript([]rune(src)).Execute(r.ElementMap{"B": value.NewBool(b)})
	}()
	zv.Assert(pn == nil, "signal across call: no panic\n"+src)
	if b {
		zv.Reach("signal")
		zv.Assert(err != nil, stmt+" outside any loop of a method body does not act on a loop of the caller (the call fails)\n"+src)
		zv.Assert(len(traceSink) == 2 && traceSink[0] == 10 && traceSink[1] == 1, "nothing runs after the misplaced "+stmt+"\n"+src)
		return
	}
	zv.Reach("plain")
	n, ok := res.(*value.Number)
	zv.Assert(err == nil && ok && n.GetValue() == 5, "without the signal the program runs to its end\n"+src)
}

// signalElsewhere: the misplaced 结束循环 / 继续循环 sits in the 拦截 handler of a
// method body (where == 1) or in a constructor body (where == 2).
func signalElsewhere(stmt, loop string, where int, b bool) {
	var def, call string
	if where == 1 {
		def = "如何F？\n    （显示：1）\n    令W = 1 / 0\n    输出 7\n    拦截异常：\n        如果 B：\n            " + stmt + "\n        输出 8\n"
		call = "    令R = （F）\n"
	} else {
		def = "定义盒：\n    其值设为0\n如何新建盒？\n    （显示：1）\n    如果 B：\n        " + stmt + "\n    其值 = 8\n"
		call = "    令O = （新建盒）\n    令R = O之值\n"
	}
	src := "输入B\n" + def + loop + "    （显示：10）\n" + call + "    （显示：R）\n（显示：20）\n输出 5"
	installTrace()
	var res r.Element
	var err error
	var pn interface{}
	func() {
		defer func() { pn = recover() }()
		res, err = exec.NewInterpreter("v").LoadScript([]rune(src)).Execute(r.ElementMap{"B": value.NewBool(b)})
	}()
	zv.Assert(pn == nil, "signal across call: no panic\n"+src)
	if b {
		zv.Reach("signal-elsewhere")
		zv.Assert(err != nil, stmt+" in a handler / constructor body outside any loop of that body does not act on a loop of the caller (the call fails)\n"+src)
		zv.Assert(len(traceSink) == 2 && traceSink[0] == 10 && traceSink[1] == 1, "nothing runs after the misplaced "+stmt+"\n"+src)
		return
	}
	zv.Reach("plain-elsewhere")
	n, ok := res.(*value.Number)
	zv.Assert(err == nil && ok && n.GetValue() == 5, "without the signal the program runs to its end\n"+src)
}

// H_NonBoolCondition: a non-boolean condition is rejected.
func H_NonBoolCondition() {
	variant := zv.Choose(3)
	src := []string{
		"输入X\n如果 X：\n    输出 1\n输出 2",
		"输入X\n每当 X：\n    输出 1\n输出 2",
		"输入X\n如果 假：\n    输出 1\n再如 X：\n    输出 3\n输出 2",
	}[variant]
	var x r.Element
	switch zv.Choose(3) {
	case 0:
		x = value.NewNumber(zv.Float64("x"))
	case 1:
		x = value.NewString("真")
	default:
		x = value.NewNull()
	}
	var err error
	var pn interface{}
	func() {
		defer func() { pn = recover() }()
		_, err = exec.NewInterpreter("v").LoadScript([]rune(src)).Execute(r.ElementMap{"X": x})
	}()
	zv.Assert(pn == nil, "non-bool: no panic")
	zv.Assert(err != nil, "a non-boolean condition is rejected")
}

// W_Witness: vacuity guard.
func W_Witness() {
	p := nest([]kind{kWhile}, kBreak)
	p.last = 78
	src := p.source()
	in, _ := symInputs(p)
	installTrace()
	res, _ := exec.NewInterpreter("v").LoadScript([]rune(src)).Execute(in)
	nv, _ := res.(*value.Number)
	zv.Assert(nv != nil && nv.GetValue() == 77, "witness")
}
