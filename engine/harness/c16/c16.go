// Package c16: executions are isolated from one another.
package c16

import (
	"github.com/DemoHn/Zn/pkg/common"
	"strings"

	"github.com/DemoHn/Zn/pkg/exec"
	r "github.com/DemoHn/Zn/pkg/runtime"
	"github.com/DemoHn/Zn/pkg/value"
	libjson "github.com/DemoHn/Zn/stdlib/json"
	"zsym/zv"
)

type outcome struct {
	res r.Element
	err error
	p   interface{}
}

func exe(it *exec.Interpreter, src string, in r.ElementMap) (o outcome) {
	defer func() { o.p = recover() }()
	o.res, o.err = it.LoadScript([]rune(src)).Execute(in)
	return
}

// netLib: the library classes of pkg/common (HTTP请求 / HTTP响应), registered
// the way stdlib/http registers them (that package does not compile here).
func netLib() *r.Library {
	lib := r.NewLibrary("@网络")
	lib.RegisterClass("HTTP请求", common.CLASS_HttpRequest)
	lib.RegisterClass("HTTP响应", common.CLASS_HttpResponse)
	return lib
}

func newIt() *exec.Interpreter {
	return exec.NewInterpreter("v").SetExternalLibs([]*r.Library{libjson.Export(), netLib()})
}

// polluters: every mutating operation applicable to predefined / global values
var polluters = []string{
	"输入A\n以数值（自增：A）\n输出 1",
	"输入A\n以数值（自减：A）\n输出 1",
	"输入A\n如何新建异常？\n    输入M\n    其内容 = “被替换”\n输出 1",
	"输入A\n如何新建数值？\n    输入M\n    输出 1\n输出 1",
	"输入A\n令X = A / 0",
	"输入A\n如何F？\n    输入N\n    令Y = 未有此名\n输出（F：A）",
	"输入A\n导入《@JSON》\n输出 1",
	"输入A\n令甲 = A\n如何乙？\n    输出 1\n定义丙：\n    其值设为1\n输出 1",
	"输入A\n以“12*^3”（转换数值）\n输出 1",
	"输入A\n抛出异常：“先前的”！",
	"输入A\n令L = 【真，假，空】\n以L（后增：A）\n输出 L",
	"导入《@网络》\n输入A\n令O = （新建HTTP请求：“GET”、“http://x”）\n以O之头部（写入：“键”、A）\n输出 1",
	"导入《@网络》\n输入A\n如何新建HTTP请求？\n    输入M、U\n    其方法 = “被替换”\n输出 1",
	"导入《@网络》\n输入A\n如何新建HTTP响应？\n    其状态码 = A\n输出 1",
	"导入《@网络》\n输入A\n令O = （新建HTTP响应：200、“正文”）\n以O之头部（写入：“X-Trace”、A）\n以O之头部（移除：“Content-Type”）\n输出 1",
	"导入《@网络》\n输入A\n令O = （新建HTTP响应：200、A）\n以O之头部（写入：“X-Trace”、A）\n输出 1",
}

type probe struct {
	src   string
	check func(o outcome) bool
	what  string
}

func isNum(e r.Element, want float64) bool {
	n, ok := e.(*value.Number)
	return ok && n.GetValue() == want
}

var probes = []probe{
	{"输出 数值 + 0", func(o outcome) bool { return o.err == nil && isNum(o.res, 0) }, "the predefined 数值 is pristine"},
	{"输出（新建数值：5）", func(o outcome) bool { return o.err == nil && isNum(o.res, 5) }, "新建数值 works as documented"},
	{"抛出异常：“消息”！", func(o outcome) bool { return o.err != nil && strings.Contains(o.err.Error(), "运行异常：消息") }, "抛出异常 ends the program with its message"},
	{"输出 1\n拦截异常：\n    输出 2", func(o outcome) bool { return o.err == nil && isNum(o.res, 1) }, "a program with an unused handler"},
	{"令X = 1 / 0\n输出 1\n拦截异常：\n    输出 其内容", func(o outcome) bool {
		s, ok := o.res.(*value.String)
		return o.err == nil && ok && s.GetValue() != ""
	}, "a handled fault yields the handler's value"},
	{"输出 甲", func(o outcome) bool { return o.err != nil }, "names declared by an earlier run are not visible"},
	{"输出（乙）", func(o outcome) bool { return o.err != nil }, "methods declared by an earlier run are not visible"},
	{"输出（解析JSON：“1”）", func(o outcome) bool { return o.err != nil }, "libraries imported by an earlier run are not imported here"},
	{"导入《@网络》\n令O = （新建HTTP请求：“POST”、“http://y”）\n输出 【O之方法，O之URL，O之头部之数目】", func(o outcome) bool {
		a, ok := o.res.(*value.Array)
		if o.err != nil || !ok || a.Length() != 3 {
			return false
		}
		m, ok1 := a.GetValue()[0].(*value.String)
		u, ok2 := a.GetValue()[1].(*value.String)
		return ok1 && ok2 && m.GetValue() == "POST" && u.GetValue() == "http://y" && isNum(a.GetValue()[2], 0)
	}, "a library type constructs its objects as documented (constructor and default properties pristine)"},
	{"导入《@网络》\n令O = （新建HTTP响应：200、“正文”）\n令P = （新建HTTP响应：200、5）\n输出 【O之头部之数目，O之头部#“Content-Type”，P之头部之数目】", func(o outcome) bool {
		a, ok := o.res.(*value.Array)
		if o.err != nil || !ok || a.Length() != 3 {
			return false
		}
		ct, ok1 := a.GetValue()[1].(*value.String)
		return isNum(a.GetValue()[0], 1) && ok1 && ct.GetValue() == "text/plain" && isNum(a.GetValue()[2], 1)
	}, "a response built by a library type has its documented headers, whatever earlier executions did to theirs"},
	{"令L = 【真，假，空】\n输出 L#3", func(o outcome) bool { _, ok := o.res.(*value.Null); return o.err == nil && ok }, "predefined 真 假 空 are pristine"},
}

// H_Sequential: P1;…;Pn;Q (n <= 2) in one process, on one interpreter object or
// on separate ones; Q must behave as if run alone.
func H_Sequential() {
	n := 1
	if zv.Tier() == 1 {
		n = 1 + zv.Choose(2)
	}
	shared := zv.Choose(2) == 0
	it := newIt()
	for k := 0; k < n; k++ {
		p := polluters[zv.Choose(len(polluters))]
		a := zv.Float64("A")
		target := it
		if !shared {
			target = newIt()
		}
		o := exe(target, p, r.ElementMap{"A": value.NewNumber(a)})
		zv.Assert(o.p == nil, "polluter: no panic")
	}
	q := probes[zv.Choose(len(probes))]
	target := it
	if !shared {
		target = newIt()
	}
	o := exe(target, q.src, r.ElementMap{})
	zv.Assert(o.p == nil, "probe: no panic")
	zv.Assert(q.check(o), "isolation: "+q.what)
	zv.Reach("done")
}

// H_SharedInterpreterSchedule: two requests served through one interpreter the
// way the HTTP handlers do it (LoadScript, then Execute); the interleaving of
// the four steps is a symbolic schedule.  Each request must get the result of
// its own script.
func H_SharedInterpreterSchedule() {
	it := newIt()
	a, b := zv.Float64("a"), zv.Float64("b")
	zv.Assume(a == a && b == b)
	// the two scripts differ: the second one negates its input
	src := []string{"输入V\n输出 V", "输入V\n输出 V * -1"}
	in := []r.ElementMap{{"V": value.NewNumber(a)}, {"V": value.NewNumber(b)}}
	loaded := []*exec.Interpreter{nil, nil}
	step := []int{0, 0} // 0: before LoadScript, 1: loaded, 2: executed
	var results [2]outcome
	for done := 0; done < 4; done++ {
		// pick the request that moves next
		var who int
		switch {
		case step[0] == 2:
			who = 1
		case step[1] == 2:
			who = 0
		default:
			who = zv.Choose(2)
		}
		if step[who] == 0 {
			loaded[who] = it.LoadScript([]rune(src[who]))
		} else {
			func() {
				defer func() { results[who].p = recover() }()
				results[who].res, results[who].err = loaded[who].Execute(in[who])
			}()
		}
		step[who]++
	}
	zv.Assert(results[0].p == nil && results[1].p == nil, "no panic")
	zv.Assert(results[0].err == nil && isSame(results[0].res, a), "request 1 gets the result of its own script under every interleaving")
	zv.Assert(results[1].err == nil && isSame(results[1].res, -b), "request 2 gets the result of its own script under every interleaving")
}

// programs that change something, call the input function 钩子 in the middle,
// and then observe what they changed
var overlapped = []string{
	"输入钩子、A\n如何新建异常？\n    输入信息\n    令备注 = 信息\n（钩子）\n抛出异常：“出错了”！\n拦截异常：\n    输出 其自身",
	"输入钩子、A\n如何新建异常？\n    输入信息\n    其内容 = “自定”\n（钩子）\n抛出异常：“出错了”！",
	"输入钩子、A\n以数值（自增：A）\n（钩子）\n输出 数值 + 0",
	"输入钩子、A\n令甲 = A\n如何乙？\n    输出 甲 + 1\n（钩子）\n输出（乙）",
	"导入《@JSON》\n输入钩子、A\n（钩子）\n输出（生成JSON：【甲 = 1】）",
	"输入钩子、A\n如何F？\n    输入N\n    （钩子）\n    令Y = N / 0\n    输出 1\n    拦截异常：\n        输出 N + 2\n输出（F：A）",
	"输入钩子、A\n（钩子）\n令X = 1 / 0\n输出 1\n拦截异常：\n    输出 其内容",
	"输入钩子、A\n定义丙：\n    其值设为 A\n（钩子）\n令O = （新建丙）\n输出 O之值",
}

func sameOutcome(x, y outcome) bool {
	if (x.p == nil) != (y.p == nil) || (x.err == nil) != (y.err == nil) {
		return false
	}
	if x.err != nil {
		return x.err.Error() == y.err.Error()
	}
	if (x.res == nil) != (y.res == nil) {
		return false
	}
	if x.res == nil {
		return true
	}
	xn, okx := x.res.(*value.Number)
	yn, oky := y.res.(*value.Number)
	if okx || oky {
		return okx && oky && zv.SameFloat(xn.GetValue(), yn.GetValue())
	}
	xs, okx2 := x.res.(interface{ String() string })
	ys, oky2 := y.res.(interface{ String() string })
	return okx2 && oky2 && xs.String() == ys.String()
}

func hookFn(f func()) r.Element {
	return value.NewFunction(func(receiver r.Element, params []r.Element) (r.Element, error) {
		f()
		return value.NewNull(), nil
	})
}

// H_Overlapping: an execution Q (own interpreter) starts and finishes while
// another execution P is in the middle of its run - as two requests served at
// the same time do.  P and Q must both behave exactly as when run alone.
func H_Overlapping() {
	a := zv.Float64("A")
	zv.Assume(a == a)
	psrc := overlapped[zv.Choose(len(overlapped))]
	var qsrc string
	var qin r.ElementMap
	nq := len(polluters) + len(probes)
	k := zv.Choose(nq)
	if k < len(polluters) {
		qsrc, qin = polluters[k], r.ElementMap{"A": value.NewNumber(a)}
	} else {
		qsrc, qin = probes[k-len(polluters)].src, r.ElementMap{}
	}
	pAlone := exe(newIt(), psrc, r.ElementMap{"钩子": hookFn(func() {}), "A": value.NewNumber(a)})
	qAlone := exe(newIt(), qsrc, qin)
	var qWith outcome
	ran := false
	pWith := exe(newIt(), psrc, r.ElementMap{"钩子": hookFn(func() { ran = true; qWith = exe(newIt(), qsrc, qin) }), "A": value.NewNumber(a)})
	zv.Assert(ran, "the overlapped program reaches its hook")
	zv.Assert(pAlone.p == nil && pWith.p == nil && qWith.p == nil, "overlapping executions: no panic")
	if !sameOutcome(pAlone, pWith) {
		zv.Observe("P", psrc)
		zv.Observe("Q", qsrc)
	}
	zv.Assert(sameOutcome(pAlone, pWith), "an execution behaves as when run alone although another one started and finished in the middle of it")
	zv.Assert(sameOutcome(qAlone, qWith), "an execution started in the middle of another one behaves as when run alone")
	zv.Reach("done")
}

const dataDir = "/verif/engine/harness/c16/testdata/"

func exeFile(it *exec.Interpreter, file string, in r.ElementMap) (o outcome) {
	defer func() { o.p = recover() }()
	o.res, o.err = it.LoadFile(dataDir + file).Execute(in)
	return
}

// H_FileMode: the same entry file (importing modules of its own directory and
// of a sub-directory) is executed repeatedly in one process - as the HTTP
// handler does per request - on one interpreter object or on fresh ones, with
// a failing file program in between: every execution yields what the first
// one yields.
func H_FileMode() {
	a := zv.Float64("A")
	zv.Assume(a == a)
	shared := zv.Choose(2) == 0
	it := newIt()
	pick := func() *exec.Interpreter {
		if shared {
			return it
		}
		return newIt()
	}
	n := 1 + zv.Choose(2)
	for k := 0; k < n; k++ {
		if zv.Choose(2) == 1 {
			o := exeFile(pick(), "抛.zn", r.ElementMap{"A": value.NewNumber(a)})
			zv.Assert(o.p == nil && o.err != nil, "file mode: the failing program fails")
		} else {
			o := exeFile(pick(), "主.zn", r.ElementMap{"A": value.NewNumber(a)})
			zv.Assert(o.p == nil && o.err == nil && isSame(o.res, a*2+4), "file mode: an earlier execution of the same file")
		}
	}
	o := exeFile(pick(), "主.zn", r.ElementMap{"A": value.NewNumber(a)})
	zv.Assert(o.p == nil, "file mode: no panic")
	zv.Assert(o.err == nil && isSame(o.res, a*2+4), "a file program (with imports from its directory) behaves the same however many executions went before in this process")
	zv.Reach("done")
}

func isSame(e r.Element, want float64) bool {
	n, ok := e.(*value.Number)
	return ok && zv.SameFloat(n.GetValue(), want)
}

// W_Witness: vacuity guard.
func W_Witness() {
	it := newIt()
	a := zv.Float64("A")
	exe(it, polluters[0], r.ElementMap{"A": value.NewNumber(a)})
	o := exe(newIt(), "输出 5", r.ElementMap{})
	zv.Assert(isNum(o.res, 6), "witness")
}
