// Package c06: names obey block scoping; constants and inputs cannot be reassigned.
package c06

import (
	"github.com/DemoHn/Zn/pkg/exec"
	r "github.com/DemoHn/Zn/pkg/runtime"
	"github.com/DemoHn/Zn/pkg/value"
	"zsym/zv"
)

// ---------------------------------------------------------------- S1: the symbol table against a stack-of-frames model

type entry struct {
	name    string
	val     float64
	isConst bool
}

type model struct {
	frames [][]entry
}

func (m *model) lookup(name string) (fi, ei int) {
	for f := len(m.frames) - 1; f >= 0; f-- {
		for e := len(m.frames[f]) - 1; e >= 0; e-- {
			if m.frames[f][e].name == name {
				return f, e
			}
		}
	}
	return -1, -1
}

var names = []string{"a", "b"}

func sameValue(e r.Element, want float64) bool {
	n, ok := e.(*value.Number)
	return ok && n.GetValue() == want
}

// agree: every name reads the same through the real table and the model.
func agree(sp *r.Scope, m *model) bool {
	for _, n := range names {
		got := sp.GetValue(n)
		f, e := m.lookup(n)
		if f < 0 {
			if got != nil {
				return false
			}
			continue
		}
		if got == nil || !sameValue(got, m.frames[f][e].val) {
			return false
		}
	}
	return true
}

// H_ScopeHistories: every sequence of up to L begin/end/declare/declare-const/
// assign operations over two names; after every step all lookups agree with
// the model and the error classes match.
func H_ScopeHistories() {
	L := 4
	if zv.Tier() == 1 {
		L = 6
	}
	sp := r.NewScope()
	m := &model{frames: [][]entry{{}}}
	var p interface{}
	func() {
		defer func() { p = recover() }()
		for step := 0; step < L; step++ {
			op := zv.Choose(6)
			name := names[zv.Choose(len(names))]
			val := float64(step + 1)
			switch op {
			case 0: // begin
				sp.BeginScope()
				m.frames = append(m.frames, []entry{})
			case 1: // end (only inside an opened block)
				if len(m.frames) == 1 {
					zv.Stop()
				}
				sp.EndScope()
				m.frames = m.frames[:len(m.frames)-1]
			case 2, 3: // declare / declare const
				var err error
				if op == 2 {
					err = sp.DeclareValue(name, value.NewNumber(val))
				} else {
					err = sp.DeclareConstValue(name, value.NewNumber(val))
				}
				top := m.frames[len(m.frames)-1]
				dup := false
				for _, e := range top {
					if e.name == name {
						dup = true
					}
				}
				zv.Assert((err != nil) == dup, "declaring a name twice in the same block is an error (and only that)")
				if !dup {
					m.frames[len(m.frames)-1] = append(top, entry{name, val, op == 3})
				}
			case 4: // assign
				err := sp.SetValue(name, value.NewNumber(val))
				f, e := m.lookup(name)
				switch {
				case f < 0:
					zv.Assert(err != nil, "assigning an undeclared name is an error")
				case m.frames[f][e].isConst:
					zv.Assert(err != nil, "assigning a constant is an error")
				default:
					zv.Assert(err == nil, "assigning a variable succeeds")
					m.frames[f][e].val = val
				}
			default: // lookup only
			}
			zv.Assert(agree(sp, m), "visibility: innermost declaration wins, ended blocks leave nothing behind, rejected operations change nothing")
		}
	}()
	zv.Assert(p == nil, "symbol table: no panic")
	zv.Reach("done")
}

// ---------------------------------------------------------------- S2: programs

type tcase struct {
	name    string
	src     string
	wantErr bool    // an error is required
	want    float64 // else this value
	wantB   float64 // value when input B is true (if differs)
	usesB   bool
}

var cases = []tcase{
	{name: "use before declare", src: "输出 X", wantErr: true},
	{name: "declared then used", src: "令X = 1\n输出 X", want: 1},
	{name: "used before its declaration line", src: "（显示：X）\n令X = 1\n输出 X", wantErr: true},
	{name: "shadowing ends with the branch", src: "输入B\n令X = 1\n如果 B：\n    令X = 2\n    （显示：X）\n输出 X", want: 1, usesB: true, wantB: 1},
	{name: "inner assignment reaches the outer variable", src: "输入B\n令X = 1\n如果 B：\n    X = 2\n输出 X", want: 1, usesB: true, wantB: 2},
	{name: "branch-local name invisible after the branch", src: "输入B\n如果 B：\n    令Y = 2\n输出 Y", wantErr: true, usesB: true},
	{name: "else-local name invisible after the branch", src: "输入B\n如果 B：\n    令Z = 1\n否则：\n    令Y = 2\n输出 Y", wantErr: true, usesB: true},
	{name: "loop-body name invisible after the loop", src: "令N = 0\n每当 N < 2：\n    N = N + 1\n    令Z = N\n输出 Z", wantErr: true},
	{name: "loop variable invisible after 遍历", src: "以V遍历【1，2】：\n    （显示：V）\n输出 V", wantErr: true},
	{name: "loop body may redeclare on every pass", src: "令N = 0\n每当 N < 3：\n    N = N + 1\n    令Z = N\n输出 N", want: 3},
	{name: "redeclaration in one block", src: "令X = 1\n令X = 2\n输出 X", wantErr: true},
	{name: "redeclaration in one branch block", src: "输入B\n如果 B：\n    令X = 1\n    令X = 2\n输出 7", want: 7, usesB: true, wantB: -1},
	{name: "assign to 恒为 constant", src: "令X恒为1\nX = 2\n输出 X", wantErr: true},
	{name: "assign to 输入 name", src: "输入X\nX = 5\n输出 X", wantErr: true},
	{name: "assign to 得到 name", src: "如何F？\n    输出 1\n（F），得到Y\nY = 2\n输出 Y", wantErr: true},
	{name: "得到 name readable", src: "如何F？\n    输出 1\n（F），得到Y\n输出 Y", want: 1},
	{name: "assign to member-call 得到 name", src: "令L = 【1】\n以L（后增：2），得到Y\nY = 3\n输出 7", wantErr: true},
	{name: "assign to method name", src: "如何F？\n    输出 1\nF = 2\n输出 7", wantErr: true},
	{name: "assign to type name", src: "定义T：\n    其A设为1\nT = 2\n输出 7", wantErr: true},
	{name: "assign to predefined 真", src: "真 = 1\n输出 7", wantErr: true},
	{name: "redeclare predefined 空", src: "令空 = 1\n输出 7", wantErr: true},
	{name: "redeclare predefined 显示", src: "令显示 = 1\n输出 7", wantErr: true},
	{name: "assign to predefined 异常", src: "异常 = 1\n输出 7", wantErr: true},
	{name: "method local invisible after return", src: "如何F？\n    令Q = 1\n    输出 Q\n令R = （F）\n输出 Q", wantErr: true},
	{name: "method result visible", src: "如何F？\n    令Q = 1\n    输出 Q\n令R = （F）\n输出 R", want: 1},
	{name: "method input invisible after return", src: "如何F？\n    输入P\n    输出 P\n令R = （F：3）\n输出 P", wantErr: true},
	{name: "method local invisible after handled exception", src: "如何F？\n    令Q = 1\n    抛出异常：“x”！\n    拦截异常：\n        输出 5\n令R = （F）\n输出 Q", wantErr: true},
	{name: "caller continues normally after handled exception", src: "如何F？\n    令Q = 1\n    抛出异常：“x”！\n    拦截异常：\n        输出 5\n令R = （F）\n输出 R", want: 5},
	{name: "caller local survives callee handled exception", src: "如何F？\n    抛出异常：“x”！\n    拦截异常：\n        输出 5\n令K = 9\n令R = （F）\n输出 K", want: 9},
	{name: "handler-local name invisible afterwards", src: "如何F？\n    抛出异常：“x”！\n    拦截异常：\n        令H = 4\n        输出 5\n令R = （F）\n输出 H", wantErr: true},
	{name: "method input invisible after a handled built-in failure", src: "如何F？\n    输入箱号\n    以箱号（开箱）\n    输出 1\n    拦截异常：\n        输出 5\n令R = （F：3）\n输出 箱号", wantErr: true},
	{name: "method local invisible after a handled built-in failure in a nested block", src: "如何F？\n    输入箱号\n    如果 真：\n        令备注 = 7\n        以箱号（开箱）\n    输出 1\n    拦截异常：\n        输出 5\n令R = （F：3）\n输出 备注", wantErr: true},
	{name: "method local invisible after a handled built-in failure in a loop", src: "如何F？\n    输入箱号\n    以项遍历【1，2】：\n        令备注 = 项\n        以“abc”（取样：0、1）\n    输出 1\n    拦截异常：\n        输出 5\n令R = （F：3）\n输出 备注", wantErr: true},
	{name: "caller may redeclare a name the failed method used", src: "如何F？\n    输入箱号\n    如果 真：\n        以箱号（开箱）\n    输出 1\n    拦截异常：\n        输出 5\n令R = （F：3）\n令箱号 = 9\n输出 箱号", want: 9},
	{name: "value after a handled failure of a global function", src: "如何F？\n    输入箱号\n    每当 真：\n        令备注 = 7\n        （显示：未有此名）\n    输出 1\n    拦截异常：\n        输出 5\n令R = （F：3）\n输出 R", want: 5},
	{name: "method input invisible after a built-in failure inside a loop was handled", src: "如何F？\n    输入箱号\n    以项遍历【1，2】：\n        以项（开箱）\n    输出 1\n    拦截异常：\n        输出 5\n令R = （F：3）\n输出 箱号", wantErr: true},
	{name: "handler does not see the names of the protected body's loop", src: "如何F？\n    输入箱号\n    以项遍历【1，2】：\n        令备注 = 7\n        以项（开箱）\n    输出 1\n    拦截异常：\n        输出 备注\n输出（F：3）", wantErr: true},
	{name: "handler does not see the protected body's loop variable", src: "如何F？\n    输入箱号\n    以项遍历【1，2】：\n        以项（开箱）\n    输出 1\n    拦截异常：\n        输出 项\n输出（F：3）", wantErr: true},
	{name: "redeclaration in the caller's block is still reported after a handled failure in a loop", src: "如何F？\n    输入箱号\n    以项遍历【1，2】：\n        以项（开箱）\n    输出 1\n    拦截异常：\n        输出 5\n令乙 = 1\n令R = （F：3）\n令乙 = 2\n输出 乙", wantErr: true},
	{name: "redeclaration in the caller's block is still reported after a handled failure in a 每当 loop", src: "如何F？\n    输入箱号\n    每当 真：\n        以箱号（开箱）\n    输出 1\n    拦截异常：\n        输出 5\n令乙 = 1\n令R = （F：3）\n令乙 = 2\n输出 乙", wantErr: true},
	{name: "redeclaration in the caller's block is still reported after a handled failure in a branch", src: "如何F？\n    输入箱号\n    如果 真：\n        以箱号（开箱）\n    输出 1\n    拦截异常：\n        输出 5\n令乙 = 1\n令R = （F：3）\n令乙 = 2\n输出 乙", wantErr: true},
	{name: "value of a program whose loop body failed in a built-in and was handled at top level", src: "令甲 = 1\n以项遍历【1，2】：\n    以项（开箱）\n输出 1\n拦截异常：\n    输出 5", want: 5},
	{name: "recursion keeps per-call names apart", src: "如何F？\n    输入N\n    如果 N == 0：\n        输出 0\n    令M = N\n    令S = （F：N - 1）\n    输出 M + S\n输出（F：3）", want: 6},
}

func runCase(c tcase) (res r.Element, err error, p interface{}) {
	defer func() { p = recover() }()
	in := r.ElementMap{}
	_ = in
	return
}

// H_Programs: scoping / constancy program templates.
func H_Programs() {
	c := cases[zv.Choose(len(cases))]
	in := r.ElementMap{"X": value.NewNumber(4)}
	b := false
	if c.usesB {
		b = zv.Bool("B")
		in["B"] = value.NewBool(b)
	}
	var res r.Element
	var err error
	var p interface{}
	exec.GlobalValues["显示"] = value.NewFunction(func(receiver r.Element, params []r.Element) (r.Element, error) {
		return value.NewNull(), nil
	})
	func() {
		defer func() { p = recover() }()
		res, err = exec.NewInterpreter("v").LoadScript([]rune(c.src)).Execute(in)
	}()
	zv.Assert(p == nil, c.name+": no panic")
	want := c.want
	wantErr := c.wantErr
	if c.usesB && b {
		if c.wantB == -1 {
			wantErr = true
		} else if !c.wantErr {
			want = c.wantB
		}
	}
	if wantErr {
		zv.Reach("error")
		zv.Assert(err != nil, c.name+": must be an error")
		return
	}
	zv.Reach("value")
	zv.Assert(err == nil, c.name+": must run")
	n, ok := res.(*value.Number)
	zv.Assert(ok && n.GetValue() == want, c.name+": value")
}

// W_Witness: vacuity guard.
func W_Witness() {
	sp := r.NewScope()
	sp.DeclareValue("a", value.NewNumber(1))
	b := zv.Bool("b")
	if b {
		sp.BeginScope()
		sp.DeclareValue("a", value.NewNumber(2))
	}
	zv.Assert(sameValue(sp.GetValue("a"), 1), "witness")
}
