// Package c11: execution is deterministic (nothing observable depends on the
// iteration order of Go maps).  The engine iterates every Go map in a
// symbolic order: each `range` step over a map is a decision, so the verdict
// covers all orders the Go runtime may choose.
package c11

import (
	"fmt"

	"github.com/DemoHn/Zn/pkg/exec"
	r "github.com/DemoHn/Zn/pkg/runtime"
	"github.com/DemoHn/Zn/pkg/syntax"
	"github.com/DemoHn/Zn/pkg/syntax/zh"
	"github.com/DemoHn/Zn/pkg/value"
	"zsym/zv"
)

var keys = []string{"甲", "乙", "丙"}

type kv struct {
	k string
	v float64
}

func mkDict(prefix string, n int) ([]kv, *value.HashMap) {
	m, _, hm := mkDictSharing(prefix, n, nil, -1)
	return m, hm
}

// mkDictSharing builds a dictionary of n numbers; when share >= 0 the entry
// under keys[share] is the very same element object as in `other` (two
// dictionaries may hold one element by reference, e.g. after 写入 of one variable).
func mkDictSharing(prefix string, n int, other []r.Element, share int) ([]kv, []r.Element, *value.HashMap) {
	var model []kv
	var pairs []value.KVPair
	var elems []r.Element
	for i := 0; i < n; i++ {
		var el r.Element
		var v float64
		if i == share && i < len(other) {
			el = other[i]
			v = el.(*value.Number).GetValue()
		} else {
			v = zv.Float64(prefix)
			zv.Assume(v == v) // NaN under structural equality is unspecified
			el = value.NewNumber(v)
		}
		model = append(model, kv{keys[i], v})
		elems = append(elems, el)
		pairs = append(pairs, value.KVPair{Key: keys[i], Value: el})
	}
	return model, elems, value.NewHashMap(pairs)
}

// contents equality: same key set, equal values (order irrelevant)
func sameContents(a, b []kv) bool {
	if len(a) != len(b) {
		return false
	}
	for _, x := range a {
		found := false
		for _, y := range b {
			if x.k == y.k {
				found = true
				if x.v != y.v {
					return false
				}
			}
		}
		if !found {
			return false
		}
	}
	return true
}

func run(src string, in r.ElementMap) (res r.Element, err error, p interface{}) {
	defer func() { p = recover() }()
	res, err = exec.NewInterpreter("v").LoadScript([]rune(src)).Execute(in)
	return
}

func isBool(e r.Element, want bool) bool {
	b, ok := e.(*value.Bool)
	return ok && b.GetValue() == want
}

// H_DictEquality: 为 / 不为 / == on dictionaries is a function of their contents
// under every map iteration order.
func H_DictEquality() {
	N := 2
	if zv.Tier() == 1 {
		N = 3
	}
	n := zv.Choose(N) + 1
	ma, ea, a := mkDictSharing("a", n, nil, -1)
	mb, _, b := mkDictSharing("b", n, ea, zv.Choose(n+1)-1)
	op := zv.Choose(3)
	src := []string{"输入A、B\n输出 A 为 B", "输入A、B\n输出 A 不为 B", "输入A、B\n输出 A == B"}[op]
	zv.SetMapOrder(1)
	res, err, p := run(src, r.ElementMap{"A": a, "B": b})
	zv.SetMapOrder(0)
	zv.Assert(p == nil && err == nil, "dictionary comparison runs")
	want := sameContents(ma, mb)
	if op == 1 {
		want = !want
	}
	zv.Assert(isBool(res, want), "dictionary equality is a function of the contents only (every map order)")
}

// H_ContainsFind: 包含 / 寻找 with dictionary elements.
func H_ContainsFind() {
	n := 2
	ma, ea, a := mkDictSharing("a", n, nil, -1)
	mb, _, b := mkDictSharing("b", n, ea, zv.Choose(n+1)-1)
	lst := value.NewArray([]r.Element{value.NewNumber(1), a})
	zv.SetMapOrder(1)
	var c, f r.Element
	var err, err2 error
	var p interface{}
	func() {
		defer func() { p = recover() }()
		c, err = lst.ExecMethod("包含", []r.Element{b})
		f, err2 = lst.ExecMethod("寻找", []r.Element{b})
	}()
	zv.SetMapOrder(0)
	zv.Assert(p == nil && err == nil && err2 == nil, "包含/寻找 run")
	want := sameContents(ma, mb)
	zv.Assert(isBool(c, want), "包含 on dictionaries is a function of the contents only")
	fn, ok := f.(*value.Number)
	zv.Assert(ok && (fn.GetValue() >= 0) == want || ok && (fn.GetValue() > 0) == want, "寻找 finds the dictionary iff it is contained")
}

// H_CompareValues: value.CompareValues on nested dictionaries.
func H_CompareValues() {
	ma, ea, a := mkDictSharing("a", 2, nil, -1)
	mb, _, b := mkDictSharing("b", 2, ea, zv.Choose(3)-1)
	outerA := value.NewHashMap([]value.KVPair{{Key: "内", Value: a}, {Key: "数", Value: value.NewNumber(1)}})
	outerB := value.NewHashMap([]value.KVPair{{Key: "数", Value: value.NewNumber(1)}, {Key: "内", Value: b}})
	zv.SetMapOrder(1)
	var got bool
	var err error
	var p interface{}
	func() {
		defer func() { p = recover() }()
		got, err = value.CompareValues(outerA, outerB, value.CmpEq)
	}()
	zv.SetMapOrder(0)
	zv.Assert(p == nil && err == nil, "CompareValues runs")
	zv.Assert(got == sameContents(ma, mb), "nested dictionary equality is a function of the contents only")
}

// H_ProgramsStable: programs whose result must not depend on map order
// (object construction, display form, iteration).
func H_ProgramsStable() {
	x := zv.Float64("x")
	variant := zv.Choose(6)
	src := []string{
		"输入X\n定义T：\n    其甲设为1\n    其乙设为2\n    其丙设为3\n令O = （新建T）\n输出 O之甲 * 100 + O之乙 * 10 + O之丙",
		"输入X\n令D = 【甲=X，乙=2，丙=3】\n令S = 【】\n以K、V遍历D：\n    以S（后增：V）\n输出 S#1",
		"输入X\n令D = 【甲=X，乙=2，丙=3】\n输出 D之所有值#1",
		"输入X\n令D = 【甲=X，乙=2，丙=3，丁=4】\n以D（移除：“乙”）\n输出 D之所有值#1",
		"输入X\n令D = 【丁=4，甲=X，乙=2，丙=3】\n以D（移除：“丁”）\n令E = D\n令S = 【】\n以K、V遍历E：\n    以S（后增：V）\n输出 S#1",
		"输入X\n令D = 【甲=1，乙=X，丙=3】\n以D（写入：“丁”、4）\n以D（移除：“甲”）\n令K = D之所有索引\n输出 {K#1 为 “乙”} 且 {K#2 为 “丙”} 且 {K#3 为 “丁”}",
	}[variant]
	zv.Assume(x == x && x-x == 0)
	zv.SetMapOrder(1)
	res, err, p := run(src, r.ElementMap{"X": value.NewNumber(x)})
	zv.SetMapOrder(0)
	zv.Assert(p == nil && err == nil, "program runs")
	if variant == 5 {
		b, okb := res.(*value.Bool)
		zv.Assert(okb && b.GetValue(), "program result does not depend on map iteration order")
		return
	}
	n, ok := res.(*value.Number)
	want := x
	if variant == 0 {
		want = 123
	}
	zv.Assert(ok && n.GetValue() == want, "program result does not depend on map iteration order")
}

func outcomeText(res r.Element, err error) string {
	if err != nil {
		return "ERR " + err.Error()
	}
	if st, ok := res.(interface{ String() string }); ok {
		return "OK " + st.String()
	}
	return "OK ?"
}

// orderCases: programs whose outcome (value or error message) must be one and
// the same under every Go map iteration order; the expected outcome is what the
// insertion-ordered run yields.
var orderCases = []struct {
	name string
	main string
	mods map[string]string
}{
	{"dictionaries holding a method and a differing number", "如何F？\n    输出 1\n输出 【甲 = F，乙 = 1】 == 【甲 = F，乙 = 2】", nil},
	{"dictionaries holding a differing number and a method", "如何F？\n    输出 1\n输出 【乙 = 1，甲 = F】 为 【乙 = 2，甲 = F】", nil},
	{"list search among dictionaries holding methods", "如何F？\n    输出 1\n令L = 【【甲 = F，乙 = 1】】\n输出 以L（包含：【甲 = F，乙 = 2】）", nil},
	{"two modules exporting the same two names", "导入“库一”\n导入“库二”\n输出 1", map[string]string{"库一": "如何甲？\n    输出 1\n如何乙？\n    输出 2\n", "库二": "如何甲？\n    输出 3\n如何乙？\n    输出 4\n"}},
	{"import cycle among three modules", "导入“库一”\n导入“库三”\n输出 1", map[string]string{"库一": "导入“库二”\n如何甲？\n    输出 1\n", "库二": "导入“库三”\n导入“库一”\n如何乙？\n    输出 2\n", "库三": "如何丙？\n    输出 3\n"}},
	{"one library imported twice (two names)", "导入《@具》之取甲\n导入《@具》之取乙\n输出（取甲）+（取乙）", map[string]string{"占位": "令X = 1\n"}},
	{"one library imported by the program and by a module", "导入《@具》\n导入“用具”\n输出（取乙）+（用）", map[string]string{"用具": "导入《@具》之取甲\n如何用？\n    输出（取甲）\n"}},
	{"object with three properties displayed", "定义T：\n    其甲设为1\n    其乙设为2\n    其丙设为3\n令O = （新建T）\n输出 “{}” % 【O】", nil},
}

func runModules(mainSrc string, mods map[string]string) (res r.Element, err error, p interface{}) {
	defer func() { p = recover() }()
	it := exec.NewInterpreter("v")
	// script mode has no module finder for custom modules: go through LoadScript
	// only when there are none
	if len(mods) == 0 {
		res, err = it.LoadScript([]rune(mainSrc)).Execute(r.ElementMap{})
		return
	}
	finder := func(isMain bool, info r.LibNameInfo) ([]rune, error) {
		if isMain {
			return []rune(mainSrc), nil
		}
		if info.LibType == r.LIB_TYPE_STD {
			return []rune{}, nil
		}
		if src, ok := mods[info.OriginalName]; ok {
			return []rune(src), nil
		}
		return nil, fmt.Errorf("no such module")
	}
	parser := syntax.NewParser([]rune(mainSrc), zh.NewParserZH())
	program, perr := parser.Parse()
	if perr != nil {
		return nil, perr, nil
	}
	vm := r.InitVM(exec.GlobalValues)
	vm.SetModuleCodeFinder(finder)
	vm.LoadExternalLibs([]*r.Library{toolLibrary()})
	res, err = exec.EvalMainModule(vm, program, r.ElementMap{})
	return
}

// toolLibrary: a registered library 《@具》 with four functions.
func toolLibrary() *r.Library {
	lib := r.NewLibrary("@具")
	for k, name := range []string{"取甲", "取乙"} {
		v := float64(k + 1)
		lib.RegisterFunction(name, value.NewFunction(func(receiver r.Element, params []r.Element) (r.Element, error) {
			return value.NewNumber(v), nil
		}))
	}
	return lib
}

// H_OutcomeStable: value or error message of the order cases under every map order.
func H_OutcomeStable() {
	c := orderCases[zv.Choose(len(orderCases))]
	ref, rerr, rp := runModules(c.main, c.mods)
	zv.Assert(rp == nil, c.name+": no panic")
	want := outcomeText(ref, rerr)
	zv.SetMapOrder(1)
	res, err, p := runModules(c.main, c.mods)
	zv.SetMapOrder(0)
	zv.Assert(p == nil, c.name+": no panic under another map order")
	got := outcomeText(res, err)
	if got != want {
		zv.Observe("want", want)
		zv.Observe("got", got)
	}
	zv.Assert(got == want, c.name+": the outcome (value or error message) does not depend on map iteration order")
}

// H_InputExpressions: the outcome of evaluating a map of input expressions
// (two of them faulty) does not depend on map iteration order.
func H_InputExpressions() {
	texts := []map[string]string{
		{"甲": "1 +", "乙": "【1，2】#5", "丙": "3"},
		{"甲": "未有此名", "乙": "1 / 0"},
		{"甲": "1", "乙": "2", "丙": "“三”"},
	}[zv.Choose(3)]
	var ref, got string
	func() {
		defer func() {
			if recover() != nil {
				ref = "PANIC"
			}
		}()
		m, err := exec.ExecExpressionInputText(texts)
		ref = inputOutcome(m, err)
	}()
	zv.SetMapOrder(1)
	func() {
		defer func() {
			if recover() != nil {
				got = "PANIC"
			}
		}()
		m, err := exec.ExecExpressionInputText(texts)
		got = inputOutcome(m, err)
	}()
	zv.SetMapOrder(0)
	zv.Assert(ref != "PANIC" && got != "PANIC", "input expressions: no panic")
	if got != ref {
		zv.Observe("want", ref)
		zv.Observe("got", got)
	}
	zv.Assert(got == ref, "the outcome of evaluating input expressions does not depend on map iteration order")
}

func inputOutcome(m r.ElementMap, err error) string {
	if err != nil {
		return "ERR " + err.Error()
	}
	s := "OK"
	for _, k := range []string{"甲", "乙", "丙"} {
		if v, ok := m[k]; ok {
			if st, ok2 := v.(interface{ String() string }); ok2 {
				s += " " + k + "=" + st.String()
			}
		}
	}
	return s
}

// W_Witness: vacuity guard - map order is really symbolic.
func W_Witness() {
	m := map[string]int{"a": 1, "b": 2}
	zv.SetMapOrder(1)
	first := ""
	for k := range m {
		first = k
		break
	}
	zv.Assert(first == "a", "witness")
}
