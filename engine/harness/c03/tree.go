package c03

import (
	"strconv"

	"github.com/DemoHn/Zn/pkg/syntax"
)

// treeString prints every part of a syntax tree (the repository's own
// StringifyAST leaves out 抛出 statements and empty statements).  nil parts
// print as "?" - never dereferenced.
func treeString(pg *syntax.Program) string {
	if pg == nil {
		return "?"
	}
	s := "PG("
	for _, im := range pg.ImportBlock {
		if im == nil {
			s += "IM? "
			continue
		}
		s += "IM(" + strconv.Itoa(int(im.ImportLibType)) + " " + tStr(im.ImportName) + " [" + tIDs(im.ImportItems) + "]) "
	}
	return s + tExec(pg.ExecBlock) + ")"
}

func tID(id *syntax.ID) string {
	if id == nil {
		return "?"
	}
	return "`" + id.GetLiteral() + "`"
}

func tStr(st *syntax.String) string {
	if st == nil {
		return "?"
	}
	return "“" + st.GetLiteral() + "”"
}

func tIDs(ids []*syntax.ID) string {
	s := ""
	for k, id := range ids {
		if k > 0 {
			s += " "
		}
		s += tID(id)
	}
	return s
}

func tExec(eb *syntax.ExecBlock) string {
	if eb == nil {
		return "X?"
	}
	s := "X(in[" + tIDs(eb.InputBlock) + "] " + tBlock(eb.StmtBlock)
	for _, cb := range eb.CatchBlock {
		if cb == nil {
			s += " catch?"
			continue
		}
		s += " catch(" + tID(cb.ExceptionClass) + " " + tBlock(cb.StmtBlock) + ")"
	}
	return s + ")"
}

func tBlock(b *syntax.StmtBlock) string {
	if b == nil {
		return "BK?"
	}
	s := "BK["
	for k, c := range b.Children {
		if k > 0 {
			s += "; "
		}
		s += tStmt(c)
	}
	return s + "]"
}

func tFn(f *syntax.FunctionDeclareStmt) string {
	if f == nil {
		return "FN?"
	}
	return "FN(" + strconv.Itoa(int(f.DeclareType)) + " " + tID(f.Name) + " " + tExec(f.ExecBlock) + ")"
}

func tExprs(es []syntax.Expression) string {
	s := ""
	for k, e := range es {
		if k > 0 {
			s += ", "
		}
		s += tExpr(e)
	}
	return s
}

func tStmt(st syntax.Statement) string {
	switch v := st.(type) {
	case nil:
		return "?"
	case *syntax.VarDeclareStmt:
		s := "VD("
		for k, p := range v.AssignPair {
			if k > 0 {
				s += " | "
			}
			s += strconv.Itoa(p.Type) + " [" + tIDs(p.Variables) + "] = " + tExpr(p.AssignExpr)
		}
		return s + ")"
	case *syntax.EmptyStmt:
		return "EMPTY"
	case *syntax.BranchStmt:
		s := "IF(" + tExpr(v.IfTrueExpr) + " " + tBlock(v.IfTrueBlock)
		for k := range v.OtherExprs {
			s += " ELIF(" + tExpr(v.OtherExprs[k]) + " "
			if k < len(v.OtherBlocks) {
				s += tBlock(v.OtherBlocks[k])
			} else {
				s += "BK?"
			}
			s += ")"
		}
		if len(v.OtherBlocks) != len(v.OtherExprs) {
			s += " ELIF-MISMATCH"
		}
		if v.HasElse {
			s += " ELSE " + tBlock(v.IfFalseBlock)
		}
		return s + ")"
	case *syntax.WhileLoopStmt:
		return "WL(" + tExpr(v.TrueExpr) + " " + tBlock(v.LoopBlock) + ")"
	case *syntax.IterateStmt:
		return "IT([" + tIDs(v.IndexNames) + "] " + tExpr(v.IterateExpr) + " " + tBlock(v.IterateBlock) + ")"
	case *syntax.BreakStmt:
		return "BREAK"
	case *syntax.ContinueStmt:
		return "CONTINUE"
	case *syntax.FunctionDeclareStmt:
		return tFn(v)
	case *syntax.FunctionReturnStmt:
		return "RT(" + tExpr(v.ReturnExpr) + ")"
	case *syntax.ClassDeclareStmt:
		s := "CLS(" + tID(v.ClassName) + " props["
		for k, p := range v.PropertyList {
			if k > 0 {
				s += "; "
			}
			if p == nil {
				s += "?"
				continue
			}
			s += tID(p.PropertyID) + " = " + tExpr(p.InitValue)
		}
		s += "] methods["
		for k, m := range v.MethodList {
			if k > 0 {
				s += "; "
			}
			s += tFn(m)
		}
		s += "] getters["
		for k, m := range v.GetterList {
			if k > 0 {
				s += "; "
			}
			s += tFn(m)
		}
		return s + "])"
	case *syntax.ThrowExceptionStmt:
		return "THROW(" + tID(v.ExceptionClass) + " [" + tExprs(v.Params) + "])"
	case *syntax.StmtBlock:
		return tBlock(v)
	case *syntax.ImportStmt:
		return "IM(" + tStr(v.ImportName) + ")"
	case syntax.Expression:
		return tExpr(v)
	}
	return "STMT-UNKNOWN"
}

func tExpr(e syntax.Expression) string {
	switch v := e.(type) {
	case nil:
		return "?"
	case *syntax.ID:
		return tID(v)
	case *syntax.String:
		return tStr(v)
	case *syntax.ArrayExpr:
		if v == nil {
			return "?"
		}
		return "ARR[" + tExprs(v.Items) + "]"
	case *syntax.HashMapExpr:
		if v == nil {
			return "?"
		}
		s := "HM["
		for k, p := range v.KVPair {
			if k > 0 {
				s += ", "
			}
			s += tExpr(p.Key) + " => " + tExpr(p.Value)
		}
		return s + "]"
	case *syntax.VarAssignExpr:
		if v == nil {
			return "?"
		}
		var target syntax.Expression
		if v.TargetVar != nil {
			target = v.TargetVar
		}
		return "VA(" + tExpr(target) + " := " + tExpr(v.AssignExpr) + ")"
	case *syntax.ObjNewExpr:
		if v == nil {
			return "?"
		}
		return "NEW(" + tID(v.ClassName) + " [" + tExprs(v.Params) + "])"
	case *syntax.FuncCallExpr:
		return tCall(v)
	case *syntax.MemberExpr:
		if v == nil {
			return "?"
		}
		s := "MB("
		if v.RootType == syntax.RootTypeProp {
			s += "其"
		} else {
			s += tExpr(v.Root)
		}
		if v.MemberType == syntax.MemberID {
			s += " 之 " + tID(v.MemberID)
		} else {
			s += " # " + tExpr(v.MemberIndex)
		}
		return s + ")"
	case *syntax.MemberMethodExpr:
		if v == nil {
			return "?"
		}
		s := "MMF(" + tExpr(v.Root) + " chain["
		for k, c := range v.MethodChain {
			if k > 0 {
				s += ", "
			}
			s += tCall(c)
		}
		s += "]"
		if v.YieldResult != nil {
			s += " yield " + tID(v.YieldResult)
		}
		return s + ")"
	case *syntax.LogicExpr:
		if v == nil {
			return "?"
		}
		return "L" + strconv.Itoa(int(v.Type)) + "(" + tExpr(v.LeftExpr) + ", " + tExpr(v.RightExpr) + ")"
	case *syntax.ArithExpr:
		if v == nil {
			return "?"
		}
		return "A" + strconv.Itoa(int(v.Type)) + "(" + tExpr(v.LeftExpr) + ", " + tExpr(v.RightExpr) + ")"
	}
	return "EXPR-UNKNOWN"
}

func tCall(c *syntax.FuncCallExpr) string {
	if c == nil {
		return "CALL?"
	}
	s := "CALL(" + tID(c.FuncName) + " [" + tExprs(c.Params) + "]"
	if c.YieldResult != nil {
		s += " yield " + tID(c.YieldResult)
	}
	return s + ")"
}
