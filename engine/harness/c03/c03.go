package c03

import (
	"strings"

	zerr "github.com/DemoHn/Zn/pkg/error"
	"github.com/DemoHn/Zn/pkg/syntax"
	"github.com/DemoHn/Zn/pkg/syntax/zh"
	"zsym/zv"
)

func parse(src []rune) (tree *syntax.Program, err error, p interface{}) {
	defer func() { p = recover() }()
	tree, err = syntax.NewParser(src, zh.NewParserZH()).Parse()
	return
}

// ---------------------------------------------------------------- layout slots
//
// Skeletons are written in a small template notation:
//   ~   optional blank          _   mandatory blank
//   \n  line end                \t  one indentation unit
//   ， ： （ ） 【 】 ？ ！ ；   punctuation with an ASCII twin
//   之  member mark (之 / 的)
//   ‹=› ‹==› ‹/=› ‹>› ‹<› ‹>=› ‹<=›   operators with keyword synonyms
// everything else is copied.

var blanks = []rune{0x0009, 0x000B, 0x000C, 0x0020, 0x00A0, 0x2000, 0x2001, 0x2002, 0x2003, 0x2004, 0x2005, 0x2006, 0x2007, 0x2008, 0x2009, 0x200A, 0x200B, 0x202F, 0x205F, 0x3000}

func pureIsBlank(c rune) bool {
	for _, b := range blanks {
		if c == b {
			return true
		}
	}
	return false
}

var twins = map[rune]rune{'，': ',', '：': ':', '（': '(', '）': ')', '【': '[', '】': ']', '？': '?', '！': '!', '；': ';'}

var synonyms = map[string][]string{
	"=": {"=", "设为"}, "==": {"==", "等于"}, "/=": {"/=", "不等于"}, ">": {">", "大于"},
	"<": {"<", "小于"}, ">=": {">=", "不小于"}, "<=": {"<=", "不大于"},
}

type layout struct {
	eol    int  // 0 LF, 1 CR, 2 CRLF, 3 per-line symbolic CR/LF
	tab    bool // TAB or four spaces
	window int  // first varied slot
	width  int  // number of varied slots
	canon  bool // render canonically (no variation)
}

// render expands a skeleton; slot number s is varied when window <= s < window+width.
func render(tpl string, lo layout) []rune {
	var out []rune
	slot := 0
	varied := func() bool {
		s := slot
		slot++
		return !lo.canon && s >= lo.window && s < lo.window+lo.width
	}
	rs := []rune(tpl)
	for i := 0; i < len(rs); i++ {
		c := rs[i]
		switch {
		case c == '~':
			// canonical: no blank; varied: any one blank character
			if varied() {
				b := zv.Rune("blank")
				zv.Assume(pureIsBlank(b))
				out = append(out, b)
			}
		case c == '_':
			// canonical: one space; varied: any blank character followed by a space
			if varied() {
				b := zv.Rune("blank")
				zv.Assume(pureIsBlank(b))
				out = append(out, b, ' ')
			} else {
				out = append(out, ' ')
			}
		case c == '\n':
			switch {
			case lo.canon || lo.eol == 0:
				out = append(out, '\n')
			case lo.eol == 1:
				out = append(out, '\r')
			case lo.eol == 2:
				out = append(out, '\r', '\n')
			default:
				if varied() {
					e := zv.Rune("eol")
					zv.Assume(e == '\r' || e == '\n')
					out = append(out, e)
				} else {
					out = append(out, '\n')
				}
			}
		case c == '\t':
			if lo.tab || lo.canon {
				out = append(out, '\t')
			} else {
				out = append(out, ' ', ' ', ' ', ' ')
			}
		case c == '⏎': // a line break that belongs to a text literal: never varied
			out = append(out, '\n')
		case c == '↵': // optional line break (followed by one indentation unit)
			if varied() {
				out = append(out, '\n')
				if lo.tab || lo.canon {
					out = append(out, '\t')
				} else {
					out = append(out, ' ', ' ', ' ', ' ')
				}
			}
		case c == '↲': // optional line break in front of a closing bracket
			if varied() {
				out = append(out, '\n')
			}
		case c == '之':
			if varied() {
				m := zv.Rune("dot")
				zv.Assume(m == '之' || m == '的')
				out = append(out, m)
			} else {
				out = append(out, c)
			}
		case c == '‹':
			j := i + 1
			for rs[j] != '›' {
				j++
			}
			op := string(rs[i+1 : j])
			i = j
			alt := synonyms[op]
			if varied() {
				out = append(out, []rune(alt[zv.Choose(len(alt))])...)
			} else {
				out = append(out, []rune(alt[0])...)
			}
		case c == '∶':
			out = append(out, '：') // the colon of a 注： comment marker is not a layout slot
		default:
			if tw, ok := twins[c]; ok {
				if varied() {
					p := zv.Rune("punct")
					zv.Assume(p == c || p == tw)
					out = append(out, p)
				} else {
					out = append(out, c)
				}
				continue
			}
			out = append(out, c)
		}
	}
	return out
}

func countSlots(tpl string) int {
	n := 0
	rs := []rune(tpl)
	for i := 0; i < len(rs); i++ {
		c := rs[i]
		if c == '~' || c == '_' || c == '\n' || c == '之' || c == '↵' || c == '↲' {
			n++
		} else if c == '‹' {
			n++
		} else if _, ok := twins[c]; ok {
			n++
		}
	}
	return n
}

// skeleton corpus: all statement kinds and expression forms
var skeletons = []string{
	"令A~‹=›~1",
	"令A、B~‹=›~【1~，~2~，~3】",
	"令圆周率恒为3.14",
	"令M~‹=›~【甲~=~1~，~乙~=~2】",
	"A~‹=›~B_+_C_*_D",
	"输出_A_*_{B_+_C}_-_D_/_E",
	"输出_A_‹>›_B_且_C_‹<=›_D_或_E_‹==›_F",
	"输出_A_为_B",
	"如果~A_‹>›_B~：\n\t输出_A\n再如~A_‹==›_B~：\n\t输出_0\n否则~：\n\t输出_B",
	"每当~A_‹<›_10~：\n\tA~‹=›~A_+_1\n\t如果~A_‹==›_5~：\n\t\t结束循环\n\t继续循环",
	"以K、V遍历M~：\n\t（显示~：~K~、~V）",
	"遍历L~：\n\t（显示~：~1）",
	"如何求和~？\n\t输入A、B\n\t令C~‹=›~A_+_B\n\t输出_C\n（求和~：~3~、~5）~，~得到R\n输出_R",
	"如何试~？\n\t输出_1_/_0\n\t拦截异常~：\n\t\t输出_其内容",
	"定义狗~：\n\t其名设为“小黄”\n\t其年龄设为0\n\n\t如何叫~？\n\t\t输出“汪”\n\n\t何为总和~？\n\t\t输出20",
	"令O~‹=›~（新建狗~：~1~、~2）",
	"输出_O之名之长度",
	"输出_L#1_+_M#{K}_+_N#“键”",
	"以L（后增~：~1）~、~（前增~：~2）~，~得到R",
	"抛出异常~：~“错”~！",
	"导入《库》\n导入“甲-乙”之方法一、方法二\n\n输入X、Y\n输出_X_+_Y\n\n拦截异常~：\n\t输出_0",
	"令L~‹=›~【\n\t1~，\n\t2~，\n\t3\n】",
	"令L~‹=›~【↵1~，↵2~，↵3↲】",
	"令M~‹=›~【↵甲~=~1~，↵乙~=~2↲】",
	"输出_{↵A_且_B↲}_‹==›_C",
	"令A~‹=›~1\n{A_且_B}_为_C",
	"输出_L#{↵I_+_1↲}",
	"（显示~：↵“甲”~、↵B）",
	"令X~‹=›~{↵{A_+_B}_*_C↲}_-_D",
	"令A~‹=›~1~；~令B~‹=›~2",
	"（显示~：\n\t“甲”~、\n\tB）",
	"令A~‹=›~1_注∶这是注释\n令B~‹=›~2_//_另一注释\n/* 块\n注释 */令C~‹=›~3",
}

// further expression / statement forms (same layout slots)
var extraSkeletons = []string{
	"令R~‹=›~以L（后增~：~1）~、~（前增~：~2）~，~得到Y",
	"输出_以L（取~：~1）~、~（加~：~2）",
	"输出_（求和~：~（求和~：~1~、~2）~、~以L（取~：~3））",
	"输出_以{A_+_B}（加~：~1）",
	"令N~‹=›~【【1~，~2】~，~【甲~=~【3】】~，~【】~，~【=】】",
	"输出_O之名#1之长度#{K}",
	"其名~‹=›~此之名_+_其姓",
	"输出_（新建狗）之名",
	"输出_A_-_B_-_C_/_D_/_E",
	"输出_A_或_B_且_C_或_D",
	"输出_A_‹/=›_B_且_C_不为_D",
	"输出_{A_或_B}_且_{C_或_{D_且_E}}",
	"令~：\n\t甲~‹=›~1\n\t乙恒为2",
	"如果~A~：\n\t如果~B~：\n\t\t输出_1\n\t否则~：\n\t\t输出_2\n输出_3",
	"以V遍历【1~，~2】~：\n\t每当~V_‹>›_0~：\n\t\tV~‹=›~V_-_1\n\t输出_V",
	"如何F~？\n\t输入A\n\t如何G~？\n\t\t输出_A\n\t输出_（G）\n输出_（F~：~1）",
	"定义猫~：\n\t其名设为“咪”\n如何新建猫~？\n\t输入名\n\t其名~‹=›~名\n令C~‹=›~（新建猫~：~“花”）",
	"抛出异常~：~“错{}”_%_【A】~！\n输出_1",
	"（显示~：~“甲”）\n（显示）\n（显示~：~A~、~B~、~C）",
	"输出_“{}+{#.2}”_%_【A~，~B】",
	"A#1~‹=›~2\nA#{K}#“键”~‹=›~3\nO之名~‹=›~4\nO之列#1~‹=›~5",
	"输出_1.5e+3_+_2*10^3_+_-3_+_+4",
	"（显示~：~「甲⏎乙」~、~丙）",
	"令总~‹=›~「甲⏎乙」_+_尾",
	"如果~“甲⏎乙”_‹==›_丙~：\n\t输出_1",
	"令L~‹=›~【“甲⏎乙”~，~1】",
}

// H_LayoutInvariance: any allowed layout of a skeleton parses to the tree of
// its canonical layout.  At most 5 slots are varied at a time (sliding window).
func H_LayoutInvariance() {
	W := 5
	all := len(skeletons) + len(extraSkeletons)
	which := zv.Choose(all)
	var tpl string
	if which < len(skeletons) {
		tpl = skeletons[which]
	} else {
		tpl = extraSkeletons[which-len(skeletons)]
	}
	n := countSlots(tpl)
	windows := (n + W - 1) / W
	if windows == 0 {
		windows = 1
	}
	style := zv.Choose(4) // LF+TAB, CR+spaces, CRLF+TAB, per-line symbolic CR/LF + spaces
	lo := layout{eol: style, tab: style%2 == 0, window: zv.Choose(windows) * W, width: W}
	canon := render(tpl, layout{canon: true})
	ct, cerr, cp := parse(canon)
	zv.Assert(cp == nil && cerr == nil && ct != nil, "the canonical rendering of the skeleton parses\n"+tpl)
	okc, why := complete(ct)
	zv.Assert(okc, "the canonical tree is complete: "+why+"\n"+tpl)
	want, listed := goldens[tpl]
	zv.Assert(listed, "skeleton has a reference tree\n"+tpl)
	if treeString(ct) != want {
		zv.Observe("tree", treeString(ct))
	}
	zv.Assert(treeString(ct) == want, "the program parses to the tree the grammar prescribes\n"+tpl)
	src := render(tpl, lo)
	t, err, p := parse(src)
	zv.Assert(p == nil, "layout variant: no panic\n"+tpl)
	zv.Assert(err == nil && t != nil, "a layout variant of a valid program is accepted\n"+tpl)
	zv.Assert(treeString(t) == want && syntax.StringifyAST(t) == syntax.StringifyAST(ct), "text that only rearranges layout never changes the tree\n"+tpl)
	zv.Reach("same-tree")
}

// ---------------------------------------------------------------- token sequences

var tokenPool = []string{
	"令", "如果", "再如", "否则", "每当", "遍历", "以", "如何", "何为", "定义", "输出", "输入", "导入", "拦截", "抛出", "新建",
	"结束循环", "继续循环", "其", "之", "得到", "为", "且", "恒为",
	"甲", "1", "“文”", "《库》",
	"：", "，", "、", "（", "）", "【", "】", "{", "}", "？", "！", "；", "=", "==", "#", "+ ",
	"\n", "\n    ", "\n        ",
}

// H_TokenSequences: every sequence of up to N tokens: the parser terminates,
// the only error is a coded syntax error, an accepted program has a complete tree.
func H_TokenSequences() {
	N := 3
	if zv.Tier() == 1 {
		N = 4
	}
	n := 1 + zv.Choose(N)
	var parts []string
	for k := 0; k < n; k++ {
		parts = append(parts, tokenPool[zv.Choose(len(tokenPool))])
	}
	src := strings.Join(parts, " ")
	t, err, p := parse([]rune(src))
	zv.Assert(p == nil, "token sequence: no panic: "+src)
	if err != nil {
		zv.Reach("rejected")
		_, ok := err.(*zerr.SyntaxError)
		zv.Assert(ok, "token sequence: a rejected text yields a coded syntax error: "+src)
		return
	}
	zv.Reach("accepted")
	ok, why := complete(t)
	zv.Assert(ok, "an accepted program has a complete tree ("+why+")")
}

// Canonical returns the canonical renderings of the skeleton corpus plus a few
// programs with handlers and nested definitions (shared with C05).
func Canonical() []string {
	var out []string
	for _, t := range skeletons {
		out = append(out, string(render(t, layout{canon: true})))
	}
	out = append(out,
		"输出1\n拦截异常：\n\t输出2\n输出3",
		"如何甲？\n\t输出1\n\t拦截异常：\n\t\t输出2\n\t输出3\n输出（甲）",
		"输出1\n拦截异常：\n\t输出2\n拦截乙异常：\n\t输出3\n",
		"如果 甲：\n\t如果 乙：\n\t\t输出 1\n\t否则：\n\t\t输出 2\n再如 丙：\n\t输出 3",
	)
	return out
}

// H_Mutations: every prefix (cut position symbolic) and every single-character
// deletion of the corpus: terminates, coded syntax error or complete tree.
func H_Mutations() {
	corpus := Canonical()
	src := []rune(corpus[zv.Choose(len(corpus))])
	cut := zv.Int("cut", 0, len(src))
	mode := zv.Choose(2)
	var mutated []rune
	for k := 0; k <= len(src); k++ {
		if cut == k {
			if mode == 0 {
				mutated = append([]rune{}, src[:k]...)
			} else if k < len(src) {
				mutated = append(append([]rune{}, src[:k]...), src[k+1:]...)
			} else {
				zv.Stop()
			}
			break
		}
	}
	t, err, p := parse(mutated)
	zv.Assert(p == nil, "mutated program: no panic")
	if err != nil {
		_, ok := err.(*zerr.SyntaxError)
		zv.Assert(ok, "mutated program: a rejected text yields a coded syntax error")
		zv.Reach("rejected")
		return
	}
	ok, why := complete(t)
	zv.Assert(ok, "an accepted program has a complete tree ("+why+")")
	zv.Reach("accepted")
}

var headers = []string{"每当 真：", "如果 真：", "如果 假：\n    甲\n否则：", "如果 假：\n    甲\n再如 真：", "以V遍历L：", "遍历L：", "如何F？\n    每当 真："}

// H_EmptyBlocks: a branch / loop header followed by nothing but blank lines,
// blanks or a comment: rejected, or a tree whose every block has a statement.
func H_EmptyBlocks() {
	h := headers[zv.Choose(len(headers))]
	tail := []string{"", "\n", "\n    ", "\n\t", "\n        ", "\n    \n", "\n    注：空", "\n    // 空", "\r\n    ", "\n    \n乙"}[zv.Choose(10)]
	t, err, p := parse([]rune(h + tail))
	zv.Assert(p == nil, "empty block: no panic\n"+h+tail)
	if err != nil {
		zv.Reach("rejected")
		return
	}
	zv.Reach("accepted")
	ok, why := complete(t)
	zv.Assert(ok, "an accepted program is complete (every branch and loop has a block with at least one statement): "+why+"\n"+h+tail)
}

// W_Witness: vacuity guard.
func W_Witness() {
	b := zv.Rune("blank")
	zv.Assume(pureIsBlank(b))
	t, _, _ := parse([]rune{'令', 'A', b, '=', b, '1'})
	t2, _, _ := parse([]rune("令A = 2"))
	zv.Assert(syntax.StringifyAST(t) == syntax.StringifyAST(t2), "witness")
}
