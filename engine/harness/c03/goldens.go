package c03

// goldens: the tree each skeleton must parse to (printed by treeString; generated
// once from the repaired tree and reviewed against the grammar of the manual:
// precedence levels, left association, chains, sections).  A change of the parser
// that yields another tree for any layout of these programs is a violation.
var goldens = map[string]string{
	"令A~‹=›~1":
		"PG(X(in[] BK[VD(1 [`A`] = `1`)]))",
	"令A、B~‹=›~【1~，~2~，~3】":
		"PG(X(in[] BK[VD(1 [`A` `B`] = ARR[`1`, `2`, `3`])]))",
	"令圆周率恒为3.14":
		"PG(X(in[] BK[VD(3 [`圆周率`] = `3.14`)]))",
	"令M~‹=›~【甲~=~1~，~乙~=~2】":
		"PG(X(in[] BK[VD(1 [`M`] = HM[`甲` => `1`, `乙` => `2`])]))",
	"A~‹=›~B_+_C_*_D":
		"PG(X(in[] BK[VA(`A` := A12(`B`, A14(`C`, `D`)))]))",
	"输出_A_*_{B_+_C}_-_D_/_E":
		"PG(X(in[] BK[RT(A13(A14(`A`, A12(`B`, `C`)), A15(`D`, `E`)))]))",
	"输出_A_‹>›_B_且_C_‹<=›_D_或_E_‹==›_F":
		"PG(X(in[] BK[RT(L1(L2(L6(`A`, `B`), L9(`C`, `D`)), L4(`E`, `F`)))]))",
	"输出_A_为_B":
		"PG(X(in[] BK[RT(L10(`A`, `B`))]))",
	"如果~A_‹>›_B~：\n\t输出_A\n再如~A_‹==›_B~：\n\t输出_0\n否则~：\n\t输出_B":
		"PG(X(in[] BK[IF(L6(`A`, `B`) BK[RT(`A`)] ELIF(L4(`A`, `B`) BK[RT(`0`)]) ELSE BK[RT(`B`)])]))",
	"每当~A_‹<›_10~：\n\tA~‹=›~A_+_1\n\t如果~A_‹==›_5~：\n\t\t结束循环\n\t继续循环":
		"PG(X(in[] BK[WL(L8(`A`, `10`) BK[VA(`A` := A12(`A`, `1`)); IF(L4(`A`, `5`) BK[BREAK]); CONTINUE])]))",
	"以K、V遍历M~：\n\t（显示~：~K~、~V）":
		"PG(X(in[] BK[IT([`K` `V`] `M` BK[CALL(`显示` [`K`, `V`])])]))",
	"遍历L~：\n\t（显示~：~1）":
		"PG(X(in[] BK[IT([] `L` BK[CALL(`显示` [`1`])])]))",
	"如何求和~？\n\t输入A、B\n\t令C~‹=›~A_+_B\n\t输出_C\n（求和~：~3~、~5）~，~得到R\n输出_R":
		"PG(X(in[] BK[FN(1 `求和` X(in[`A` `B`] BK[VD(1 [`C`] = A12(`A`, `B`)); RT(`C`)])); CALL(`求和` [`3`, `5`] yield `R`); RT(`R`)]))",
	"如何试~？\n\t输出_1_/_0\n\t拦截异常~：\n\t\t输出_其内容":
		"PG(X(in[] BK[FN(1 `试` X(in[] BK[RT(A15(`1`, `0`))] catch(`异常` BK[RT(MB(其 之 `内容`))])))]))",
	"定义狗~：\n\t其名设为“小黄”\n\t其年龄设为0\n\n\t如何叫~？\n\t\t输出“汪”\n\n\t何为总和~？\n\t\t输出20":
		"PG(X(in[] BK[CLS(`狗` props[`名` = “小黄”; `年龄` = `0`] methods[FN(1 `叫` X(in[] BK[RT(“汪”)]))] getters[FN(2 `总和` X(in[] BK[RT(`20`)]))])]))",
	"令O~‹=›~（新建狗~：~1~、~2）":
		"PG(X(in[] BK[VD(1 [`O`] = NEW(`狗` [`1`, `2`]))]))",
	"输出_O之名之长度":
		"PG(X(in[] BK[RT(MB(MB(`O` 之 `名`) 之 `长度`))]))",
	"输出_L#1_+_M#{K}_+_N#“键”":
		"PG(X(in[] BK[RT(A12(A12(MB(`L` # `1`), MB(`M` # `K`)), MB(`N` # “键”)))]))",
	"以L（后增~：~1）~、~（前增~：~2）~，~得到R":
		"PG(X(in[] BK[MMF(`L` chain[CALL(`后增` [`1`]), CALL(`前增` [`2`])] yield `R`)]))",
	"抛出异常~：~“错”~！":
		"PG(X(in[] BK[THROW(`异常` [“错”])]))",
	"导入《库》\n导入“甲-乙”之方法一、方法二\n\n输入X、Y\n输出_X_+_Y\n\n拦截异常~：\n\t输出_0":
		"PG(IM(1 “库” []) IM(2 “甲-乙” [`方法一` `方法二`]) X(in[`X` `Y`] BK[RT(A12(`X`, `Y`))] catch(`异常` BK[RT(`0`)])))",
	"令L~‹=›~【\n\t1~，\n\t2~，\n\t3\n】":
		"PG(X(in[] BK[VD(1 [`L`] = ARR[`1`, `2`, `3`])]))",
	"令L~‹=›~【↵1~，↵2~，↵3↲】":
		"PG(X(in[] BK[VD(1 [`L`] = ARR[`1`, `2`, `3`])]))",
	"令M~‹=›~【↵甲~=~1~，↵乙~=~2↲】":
		"PG(X(in[] BK[VD(1 [`M`] = HM[`甲` => `1`, `乙` => `2`])]))",
	"输出_{↵A_且_B↲}_‹==›_C":
		"PG(X(in[] BK[RT(L4(L2(`A`, `B`), `C`))]))",
	"令A~‹=›~1\n{A_且_B}_为_C":
		"PG(X(in[] BK[VD(1 [`A`] = `1`); L10(L2(`A`, `B`), `C`)]))",
	"输出_L#{↵I_+_1↲}":
		"PG(X(in[] BK[RT(MB(`L` # A12(`I`, `1`)))]))",
	"（显示~：↵“甲”~、↵B）":
		"PG(X(in[] BK[CALL(`显示` [“甲”, `B`])]))",
	"令X~‹=›~{↵{A_+_B}_*_C↲}_-_D":
		"PG(X(in[] BK[VD(1 [`X`] = A13(A14(A12(`A`, `B`), `C`), `D`))]))",
	"令A~‹=›~1~；~令B~‹=›~2":
		"PG(X(in[] BK[VD(1 [`A`] = `1`); EMPTY; VD(1 [`B`] = `2`)]))",
	"（显示~：\n\t“甲”~、\n\tB）":
		"PG(X(in[] BK[CALL(`显示` [“甲”, `B`])]))",
	"令A~‹=›~1_注∶这是注释\n令B~‹=›~2_//_另一注释\n/* 块\n注释 */令C~‹=›~3":
		"PG(X(in[] BK[VD(1 [`A`] = `1`); VD(1 [`B`] = `2`); VD(1 [`C`] = `3`)]))",
	"令R~‹=›~以L（后增~：~1）~、~（前增~：~2）~，~得到Y":
		"PG(X(in[] BK[VD(1 [`R`] = MMF(`L` chain[CALL(`后增` [`1`]), CALL(`前增` [`2`])] yield `Y`))]))",
	"输出_以L（取~：~1）~、~（加~：~2）":
		"PG(X(in[] BK[RT(MMF(`L` chain[CALL(`取` [`1`]), CALL(`加` [`2`])]))]))",
	"输出_（求和~：~（求和~：~1~、~2）~、~以L（取~：~3））":
		"PG(X(in[] BK[RT(CALL(`求和` [CALL(`求和` [`1`, `2`]), MMF(`L` chain[CALL(`取` [`3`])])]))]))",
	"输出_以{A_+_B}（加~：~1）":
		"PG(X(in[] BK[RT(MMF(A12(`A`, `B`) chain[CALL(`加` [`1`])]))]))",
	"令N~‹=›~【【1~，~2】~，~【甲~=~【3】】~，~【】~，~【=】】":
		"PG(X(in[] BK[VD(1 [`N`] = ARR[ARR[`1`, `2`], HM[`甲` => ARR[`3`]], ARR[], HM[]])]))",
	"输出_O之名#1之长度#{K}":
		"PG(X(in[] BK[RT(MB(MB(MB(MB(`O` 之 `名`) # `1`) 之 `长度`) # `K`))]))",
	"其名~‹=›~此之名_+_其姓":
		"PG(X(in[] BK[VA(MB(其 之 `名`) := A12(MB(`此` 之 `名`), MB(其 之 `姓`)))]))",
	"输出_（新建狗）之名":
		"PG(X(in[] BK[RT(MB(NEW(`狗` []) 之 `名`))]))",
	"输出_A_-_B_-_C_/_D_/_E":
		"PG(X(in[] BK[RT(A13(A13(`A`, `B`), A15(A15(`C`, `D`), `E`)))]))",
	"输出_A_或_B_且_C_或_D":
		"PG(X(in[] BK[RT(L1(L1(`A`, L2(`B`, `C`)), `D`))]))",
	"输出_A_‹/=›_B_且_C_不为_D":
		"PG(X(in[] BK[RT(L2(L5(`A`, `B`), L11(`C`, `D`)))]))",
	"输出_{A_或_B}_且_{C_或_{D_且_E}}":
		"PG(X(in[] BK[RT(L2(L1(`A`, `B`), L1(`C`, L2(`D`, `E`))))]))",
	"令~：\n\t甲~‹=›~1\n\t乙恒为2":
		"PG(X(in[] BK[VD(1 [`甲`] = `1` | 3 [`乙`] = `2`)]))",
	"如果~A~：\n\t如果~B~：\n\t\t输出_1\n\t否则~：\n\t\t输出_2\n输出_3":
		"PG(X(in[] BK[IF(`A` BK[IF(`B` BK[RT(`1`)] ELSE BK[RT(`2`)])]); RT(`3`)]))",
	"以V遍历【1~，~2】~：\n\t每当~V_‹>›_0~：\n\t\tV~‹=›~V_-_1\n\t输出_V":
		"PG(X(in[] BK[IT([`V`] ARR[`1`, `2`] BK[WL(L6(`V`, `0`) BK[VA(`V` := A13(`V`, `1`))]); RT(`V`)])]))",
	"如何F~？\n\t输入A\n\t如何G~？\n\t\t输出_A\n\t输出_（G）\n输出_（F~：~1）":
		"PG(X(in[] BK[FN(1 `F` X(in[`A`] BK[FN(1 `G` X(in[] BK[RT(`A`)])); RT(CALL(`G` []))])); RT(CALL(`F` [`1`]))]))",
	"定义猫~：\n\t其名设为“咪”\n如何新建猫~？\n\t输入名\n\t其名~‹=›~名\n令C~‹=›~（新建猫~：~“花”）":
		"PG(X(in[] BK[CLS(`猫` props[`名` = “咪”] methods[] getters[]); FN(3 `猫` X(in[`名`] BK[VA(MB(其 之 `名`) := `名`)])); VD(1 [`C`] = NEW(`猫` [“花”]))]))",
	"抛出异常~：~“错{}”_%_【A】~！\n输出_1":
		"PG(X(in[] BK[THROW(`异常` [A17(“错{}”, ARR[`A`])]); RT(`1`)]))",
	"（显示~：~“甲”）\n（显示）\n（显示~：~A~、~B~、~C）":
		"PG(X(in[] BK[CALL(`显示` [“甲”]); CALL(`显示` []); CALL(`显示` [`A`, `B`, `C`])]))",
	"输出_“{}+{#.2}”_%_【A~，~B】":
		"PG(X(in[] BK[RT(A17(“{}+{#.2}”, ARR[`A`, `B`]))]))",
	"A#1~‹=›~2\nA#{K}#“键”~‹=›~3\nO之名~‹=›~4\nO之列#1~‹=›~5":
		"PG(X(in[] BK[VA(MB(`A` # `1`) := `2`); VA(MB(MB(`A` # `K`) # “键”) := `3`); VA(MB(`O` 之 `名`) := `4`); VA(MB(MB(`O` 之 `列`) # `1`) := `5`)]))",
	"输出_1.5e+3_+_2*10^3_+_-3_+_+4":
		"PG(X(in[] BK[RT(A12(A12(A12(`1.5e+3`, `2*10^3`), `-3`), `+4`))]))",
}
