// Package c03: parsing builds the tree the grammar prescribes, for any layout.
package c03

import (
	"github.com/DemoHn/Zn/pkg/syntax"
)

// complete reports whether the tree has every part the grammar requires
// (nil-safe: a missing part is reported, never dereferenced).
func complete(pg *syntax.Program) (bool, string) {
	if pg == nil {
		return false, "nil program"
	}
	for _, im := range pg.ImportBlock {
		if im == nil || im.ImportName == nil {
			return false, "import without name"
		}
		for _, it := range im.ImportItems {
			if it == nil {
				return false, "nil import item"
			}
		}
	}
	if pg.ExecBlock == nil {
		return true, ""
	}
	return execBlock(pg.ExecBlock)
}

func execBlock(eb *syntax.ExecBlock) (bool, string) {
	if eb == nil {
		return false, "nil exec block"
	}
	for _, id := range eb.InputBlock {
		if id == nil {
			return false, "nil input name"
		}
	}
	if eb.StmtBlock == nil {
		return false, "exec block without statement block"
	}
	if ok, why := block(eb.StmtBlock); !ok {
		return false, why
	}
	for _, cb := range eb.CatchBlock {
		if cb == nil || cb.ExceptionClass == nil || cb.StmtBlock == nil {
			return false, "incomplete catch block"
		}
		if ok, why := block(cb.StmtBlock); !ok {
			return false, why
		}
	}
	return true, ""
}

// bodyBlock: the block of a branch or loop (‹语句块› ::= ‹普通语句› […]*: at least one statement)
func bodyBlock(b *syntax.StmtBlock) (bool, string) {
	if b != nil && len(b.Children) == 0 {
		return false, "empty block"
	}
	return block(b)
}

func block(b *syntax.StmtBlock) (bool, string) {
	if b == nil {
		return false, "nil block"
	}
	for _, s := range b.Children {
		if ok, why := stmt(s); !ok {
			return false, why
		}
	}
	return true, ""
}

func fn(f *syntax.FunctionDeclareStmt) (bool, string) {
	if f == nil || f.Name == nil || f.ExecBlock == nil {
		return false, "incomplete function declaration"
	}
	return execBlock(f.ExecBlock)
}

func stmt(s syntax.Statement) (bool, string) {
	switch v := s.(type) {
	case nil:
		return false, "nil statement"
	case *syntax.VarDeclareStmt:
		if v == nil || len(v.AssignPair) == 0 {
			return false, "declaration without pairs"
		}
		for _, p := range v.AssignPair {
			if len(p.Variables) == 0 {
				return false, "declaration pair without names"
			}
			for _, id := range p.Variables {
				if id == nil {
					return false, "nil declared name"
				}
			}
			if ok, why := expr(p.AssignExpr); !ok {
				return false, "declaration: " + why
			}
		}
	case *syntax.EmptyStmt, *syntax.BreakStmt, *syntax.ContinueStmt:
	case *syntax.BranchStmt:
		if v == nil {
			return false, "nil branch"
		}
		if ok, why := expr(v.IfTrueExpr); !ok {
			return false, "branch condition: " + why
		}
		if ok, why := bodyBlock(v.IfTrueBlock); !ok {
			return false, "branch block: " + why
		}
		if len(v.OtherExprs) != len(v.OtherBlocks) {
			return false, "else-if conditions and blocks differ in number"
		}
		for k := range v.OtherExprs {
			if ok, why := expr(v.OtherExprs[k]); !ok {
				return false, "else-if condition: " + why
			}
			if ok, why := bodyBlock(v.OtherBlocks[k]); !ok {
				return false, "else-if block: " + why
			}
		}
		if v.HasElse {
			if ok, why := bodyBlock(v.IfFalseBlock); !ok {
				return false, "else block: " + why
			}
		}
	case *syntax.WhileLoopStmt:
		if v == nil {
			return false, "nil loop"
		}
		if ok, why := expr(v.TrueExpr); !ok {
			return false, "loop condition: " + why
		}
		if ok, why := bodyBlock(v.LoopBlock); !ok {
			return false, "loop block: " + why
		}
	case *syntax.IterateStmt:
		if v == nil {
			return false, "nil iterate"
		}
		if ok, why := expr(v.IterateExpr); !ok {
			return false, "iterate target: " + why
		}
		for _, id := range v.IndexNames {
			if id == nil {
				return false, "nil loop name"
			}
		}
		if ok, why := bodyBlock(v.IterateBlock); !ok {
			return false, "iterate block: " + why
		}
	case *syntax.FunctionDeclareStmt:
		return fn(v)
	case *syntax.FunctionReturnStmt:
		if v == nil {
			return false, "nil return"
		}
		if ok, why := expr(v.ReturnExpr); !ok {
			return false, "输出 without expression: " + why
		}
	case *syntax.ClassDeclareStmt:
		if v == nil || v.ClassName == nil {
			return false, "class without name"
		}
		for _, p := range v.PropertyList {
			if p == nil || p.PropertyID == nil {
				return false, "incomplete property"
			}
			if ok, why := expr(p.InitValue); !ok {
				return false, "property value: " + why
			}
		}
		for _, m := range append(append([]*syntax.FunctionDeclareStmt{}, v.MethodList...), v.GetterList...) {
			if ok, why := fn(m); !ok {
				return false, why
			}
		}
	case *syntax.ThrowExceptionStmt:
		if v == nil || v.ExceptionClass == nil {
			return false, "throw without class"
		}
		for _, p := range v.Params {
			if ok, why := expr(p); !ok {
				return false, "throw argument: " + why
			}
		}
	case *syntax.ImportStmt:
		if v == nil || v.ImportName == nil {
			return false, "import without name"
		}
	case syntax.Expression:
		return expr(v)
	default:
		return false, "unknown statement node"
	}
	return true, ""
}

func expr(e syntax.Expression) (bool, string) {
	switch v := e.(type) {
	case nil:
		return false, "missing expression"
	case *syntax.ID:
		if v == nil {
			return false, "nil identifier"
		}
	case *syntax.String:
		if v == nil {
			return false, "nil string"
		}
	case *syntax.ArrayExpr:
		if v == nil {
			return false, "nil list"
		}
		for _, it := range v.Items {
			if ok, why := expr(it); !ok {
				return false, "list item: " + why
			}
		}
	case *syntax.HashMapExpr:
		if v == nil {
			return false, "nil dictionary"
		}
		for _, kv := range v.KVPair {
			if ok, why := expr(kv.Key); !ok {
				return false, "dictionary key: " + why
			}
			if ok, why := expr(kv.Value); !ok {
				return false, "dictionary value: " + why
			}
		}
	case *syntax.VarAssignExpr:
		if v == nil || v.TargetVar == nil {
			return false, "assignment without target"
		}
		if ok, why := expr(v.TargetVar); !ok {
			return false, why
		}
		if ok, why := expr(v.AssignExpr); !ok {
			return false, "assignment value: " + why
		}
	case *syntax.ObjNewExpr:
		if v == nil || v.ClassName == nil {
			return false, "新建 without class"
		}
		for _, p := range v.Params {
			if ok, why := expr(p); !ok {
				return false, why
			}
		}
	case *syntax.FuncCallExpr:
		if v == nil || v.FuncName == nil {
			return false, "call without name"
		}
		for _, p := range v.Params {
			if ok, why := expr(p); !ok {
				return false, "call argument: " + why
			}
		}
	case *syntax.MemberExpr:
		if v == nil {
			return false, "nil member expression"
		}
		if v.RootType == syntax.RootTypeExpr {
			if ok, why := expr(v.Root); !ok {
				return false, "member root: " + why
			}
		}
		if v.MemberType == syntax.MemberID && v.MemberID == nil {
			return false, "member without name"
		}
		if v.MemberType == syntax.MemberIndex {
			if ok, why := expr(v.MemberIndex); !ok {
				return false, "member index: " + why
			}
		}
	case *syntax.MemberMethodExpr:
		if v == nil {
			return false, "nil member method"
		}
		if ok, why := expr(v.Root); !ok {
			return false, "method root: " + why
		}
		if len(v.MethodChain) == 0 {
			return false, "member method without calls"
		}
		for _, c := range v.MethodChain {
			if ok, why := expr(c); !ok {
				return false, why
			}
		}
	case *syntax.LogicExpr:
		if v == nil {
			return false, "nil logic expression"
		}
		if ok, why := expr(v.LeftExpr); !ok {
			return false, "left operand: " + why
		}
		if ok, why := expr(v.RightExpr); !ok {
			return false, "right operand: " + why
		}
	case *syntax.ArithExpr:
		if v == nil {
			return false, "nil arithmetic expression"
		}
		if ok, why := expr(v.LeftExpr); !ok {
			return false, "left operand: " + why
		}
		if ok, why := expr(v.RightExpr); !ok {
			return false, "right operand: " + why
		}
	default:
		return false, "unknown expression node"
	}
	return true, ""
}
