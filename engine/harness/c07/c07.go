// Package c07: lists and dictionaries are copied on assignment; objects are shared.
package c07

import (
	"fmt"

	"github.com/DemoHn/Zn/pkg/exec"
	r "github.com/DemoHn/Zn/pkg/runtime"
	"github.com/DemoHn/Zn/pkg/value"
	"zsym/zv"
)

// ---- twin heap: Go values with explicit deep copies

type tv struct {
	isList bool
	isDict bool
	name   string // input name when the number is a symbolic input
	num    float64
	list   []*tv
	keys   []string
	vals   []*tv
}

func num(f float64) *tv                   { return &tv{num: f} }
func list(items ...*tv) *tv               { return &tv{isList: true, list: items} }
func dict(keys []string, vals ...*tv) *tv { return &tv{isDict: true, keys: keys, vals: vals} }

func (t *tv) clone() *tv {
	c := &tv{isList: t.isList, isDict: t.isDict, num: t.num, name: t.name, keys: append([]string{}, t.keys...)}
	for _, x := range t.list {
		c.list = append(c.list, x.clone())
	}
	for _, x := range t.vals {
		c.vals = append(c.vals, x.clone())
	}
	return c
}

func (t *tv) dump() string {
	switch {
	case t.isList:
		s := "["
		for k, x := range t.list {
			if k > 0 {
				s += ","
			}
			s += x.dump()
		}
		return s + "]"
	case t.isDict:
		s := "{"
		for k, x := range t.vals {
			if k > 0 {
				s += ","
			}
			s += t.keys[k] + "=" + x.dump()
		}
		return s + "}"
	}
	return fmt.Sprintf("%v", t.num)
}

func (t *tv) lit() string {
	switch {
	case t.isList:
		s := "【"
		for k, x := range t.list {
			if k > 0 {
				s += "，"
			}
			s += x.lit()
		}
		return s + "】"
	case t.isDict:
		s := "【"
		for k, x := range t.vals {
			if k > 0 {
				s += "，"
			}
			s += t.keys[k] + "=" + x.lit()
		}
		return s + "】"
	}
	if t.name != "" {
		return t.name
	}
	return fmt.Sprintf("%v", t.num)
}

// same: structural comparison of a result with a twin (numbers bit for bit).
func same(e r.Element, t *tv) bool {
	switch v := e.(type) {
	case *value.Array:
		if !t.isList || len(v.GetValue()) != len(t.list) {
			return false
		}
		for k, x := range v.GetValue() {
			if !same(x, t.list[k]) {
				return false
			}
		}
		return true
	case *value.HashMap:
		if !t.isDict || len(v.GetKeyOrder()) != len(t.keys) {
			return false
		}
		for k, key := range v.GetKeyOrder() {
			if key != t.keys[k] || !same(v.GetValue()[key], t.vals[k]) {
				return false
			}
		}
		return true
	case *value.Number:
		return !t.isList && !t.isDict && zv.SameFloat(v.GetValue(), t.num)
	}
	return false
}

func dumpElem(e r.Element) string {
	switch v := e.(type) {
	case *value.Array:
		s := "["
		for k, x := range v.GetValue() {
			if k > 0 {
				s += ","
			}
			s += dumpElem(x)
		}
		return s + "]"
	case *value.HashMap:
		s := "{"
		for k, key := range v.GetKeyOrder() {
			if k > 0 {
				s += ","
			}
			s += key + "=" + dumpElem(v.GetValue()[key])
		}
		return s + "}"
	case *value.Number:
		return fmt.Sprintf("%v", v.GetValue())
	case nil:
		return "<nil>"
	}
	return "?" + e.String()
}

// shapes of the original value A; its numbers are the symbolic inputs N1..N3
func shapeOf(k int) *tv {
	n1, n2, n3 := num(1), num(2), num(3)
	if symN != nil {
		n1 = &tv{name: "N1", num: symN[0]}
		n2 = &tv{name: "N2", num: symN[1]}
		n3 = &tv{name: "N3", num: symN[2]}
	}
	switch k {
	case 0:
		return list(list(n1, n2), list(n3))
	case 1:
		return dict([]string{"甲", "乙"}, list(n1, n2), list(n3))
	case 2:
		return list(dict([]string{"甲"}, n1), dict([]string{"甲"}, n2))
	}
	return list(n1, n2, n3)
}

var symN []float64 // symbolic element values (nil: concrete 1,2,3)
var symM float64   // symbolic value written by mutations
var symIn r.ElementMap

func mval(c float64) *tv {
	if symN != nil {
		return &tv{name: "M", num: symM}
	}
	return num(c)
}

func mlit(c float64) string {
	if symN != nil {
		return "M"
	}
	return fmt.Sprintf("%v", c)
}

func run(src string) (res r.Element, err error, p interface{}) {
	defer func() { p = recover() }()
	res, err = exec.NewInterpreter("v").LoadScript([]rune(src)).Execute(symIn)
	return
}

// mutation of the value held by Zn expression path `name` / twin t
type mutation struct {
	zn    func(name string) string
	apply func(t *tv) bool // false: not applicable to this shape
}

var mutations = []mutation{
	{ // element write at depth 1
		func(n string) string { return n + "#1 = " + mlit(99) },
		func(t *tv) bool {
			if !t.isList || len(t.list) == 0 {
				return false
			}
			t.list[0] = mval(99)
			return true
		}},
	{ // element write at depth 2
		func(n string) string { return n + "#1#1 = " + mlit(98) },
		func(t *tv) bool {
			if !t.isList || len(t.list) == 0 || !t.list[0].isList || len(t.list[0].list) == 0 {
				return false
			}
			t.list[0].list[0] = mval(98)
			return true
		}},
	{ // 后增 at depth 1
		func(n string) string { return "以" + n + "（后增：" + mlit(97) + "）" },
		func(t *tv) bool {
			if !t.isList {
				return false
			}
			t.list = append(t.list, mval(97))
			return true
		}},
	{ // 后增 at depth 2
		func(n string) string { return "以" + n + "#1（后增：" + mlit(96) + "）" },
		func(t *tv) bool {
			if !t.isList || len(t.list) == 0 || !t.list[0].isList {
				return false
			}
			t.list[0].list = append(t.list[0].list, mval(96))
			return true
		}},
	{ // 前增
		func(n string) string { return "以" + n + "（前增：" + mlit(95) + "）" },
		func(t *tv) bool {
			if !t.isList {
				return false
			}
			t.list = append([]*tv{mval(95)}, t.list...)
			return true
		}},
	{ // 左移
		func(n string) string { return "以" + n + "（左移）" },
		func(t *tv) bool {
			if !t.isList || len(t.list) == 0 {
				return false
			}
			t.list = t.list[1:]
			return true
		}},
	{ // 右移
		func(n string) string { return "以" + n + "（右移）" },
		func(t *tv) bool {
			if !t.isList || len(t.list) == 0 {
				return false
			}
			t.list = t.list[:len(t.list)-1]
			return true
		}},
	{ // 交换
		func(n string) string { return "以" + n + "（交换：1、2）" },
		func(t *tv) bool {
			if !t.isList || len(t.list) < 2 {
				return false
			}
			t.list[0], t.list[1] = t.list[1], t.list[0]
			return true
		}},
	{ // 新增 at position 1 (insert before the 2nd item per 0-based insert position)
		func(n string) string {
			return "以" + n + "（后增：" + mlit(94) + "）\n以" + n + "（右移）\n以" + n + "（后增：" + mlit(93) + "）"
		},
		func(t *tv) bool {
			if !t.isList {
				return false
			}
			t.list = append(t.list, mval(93))
			return true
		}},
	{ // dict key write
		func(n string) string { return n + "#“甲” = " + mlit(92) },
		func(t *tv) bool {
			if !t.isDict {
				return false
			}
			for k := range t.keys {
				if t.keys[k] == "甲" {
					t.vals[k] = mval(92)
					return true
				}
			}
			t.keys = append(t.keys, "甲")
			t.vals = append(t.vals, mval(92))
			return true
		}},
	{ // dict 写入 new key
		func(n string) string { return "以" + n + "（写入：“丁”、" + mlit(91) + "）" },
		func(t *tv) bool {
			if !t.isDict {
				return false
			}
			t.keys = append(t.keys, "丁")
			t.vals = append(t.vals, mval(91))
			return true
		}},
	{ // dict 移除
		func(n string) string { return "以" + n + "（移除：“甲”）" },
		func(t *tv) bool {
			if !t.isDict {
				return false
			}
			for k := range t.keys {
				if t.keys[k] == "甲" {
					t.keys = append(append([]string{}, t.keys[:k]...), t.keys[k+1:]...)
					t.vals = append(append([]*tv{}, t.vals[:k]...), t.vals[k+1:]...)
					return true
				}
			}
			return true
		}},
	{ // nested dict value inside a list: L#1#“甲” = 90
		func(n string) string { return n + "#1#“甲” = " + mlit(90) },
		func(t *tv) bool {
			if !t.isList || len(t.list) == 0 || !t.list[0].isDict {
				return false
			}
			d := t.list[0]
			for k := range d.keys {
				if d.keys[k] == "甲" {
					d.vals[k] = mval(90)
					return true
				}
			}
			return false
		}},
	{ // nested list inside a dict: D#“甲”#1 = 89 and 后增
		func(n string) string {
			return n + "#“甲”#1 = " + mlit(89) + "\n以" + n + "#“乙”（后增：" + mlit(88) + "）"
		},
		func(t *tv) bool {
			if !t.isDict || len(t.vals) < 2 || !t.vals[0].isList || !t.vals[1].isList {
				return false
			}
			t.vals[0].list[0] = mval(89)
			t.vals[1].list = append(t.vals[1].list, mval(88))
			return true
		}},
}

// copy statements: how the second name(s) are bound from A
type copyKind struct {
	zn    string   // statements binding the other names from A
	names []string // Zn expressions naming each holder (besides A)
}

var copyKinds = []copyKind{
	{"令B = A", []string{"B"}},
	{"令B、C = A", []string{"B", "C"}},
	{"令B = 0\nB = A", []string{"B"}},
	{"令B = A\n令C = B", []string{"B", "C"}},
	{"令W = 【0，0】\nW#1 = A\nW#2 = A", []string{"W#1", "W#2"}},
	{"令W = 【甲=0】\nW#“甲” = A\n令B = W#“甲”", []string{"W#“甲”", "B"}},
	{"令B恒为A", []string{"B"}},
	{"令W = 【0】\n以W（后增：A）", []string{"W#2"}},
	{"令W = 【0】\n以W（前增：A）", []string{"W#1"}},
	{"令W = 【甲=0】\n以W（写入：“乙”、A）", []string{"W#“乙”"}},
	{"如何原样？\n    输入X\n    输出 X\n（原样：A），得到B", []string{"B"}},
	{"令W = 【0】\n以W（后增：A），得到B", []string{"W#2"}},
}

// H_CopyThenMutate: bind other names from A, mutate through one holder
// (symbolic choice), read through every holder.
func H_CopyThenMutate() {
	symN = []float64{zv.Float64("N1"), zv.Float64("N2"), zv.Float64("N3")}
	symM = zv.Float64("M")
	symIn = r.ElementMap{"N1": value.NewNumber(symN[0]), "N2": value.NewNumber(symN[1]), "N3": value.NewNumber(symN[2]), "M": value.NewNumber(symM)}
	shape := zv.Choose(4)
	ck := copyKinds[zv.Choose(len(copyKinds))]
	mu := mutations[zv.Choose(len(mutations))]
	holders := append([]string{"A"}, ck.names...)
	target := zv.Choose(len(holders))
	twins := make([]*tv, len(holders))
	for k := range twins {
		twins[k] = shapeOf(shape).clone()
	}
	if !mu.apply(twins[target]) {
		zv.Stop()
	}
	src := "输入N1、N2、N3、M\n令A = " + shapeOf(shape).lit() + "\n" + ck.zn + "\n" + mu.zn(holders[target]) + "\n输出【"
	for k, h := range holders {
		if k > 0 {
			src += "，"
		}
		src += h
	}
	src += "】"
	res, err, p := run(src)
	zv.Assert(p == nil, "no panic\n"+src)
	zv.Assert(err == nil, "program runs\n"+src)
	zv.Assert(same(res, list(twins...)), "a change made through one variable is not visible through another\n"+src)
	zv.Reach("done")
}

// H_ClassDefaults: the default value of a property (dictionary, nested list,
// list) is copied into every object: changing it in place through one object
// (method call, key / element assignment) is not visible through another
// object, created before or after the change.
func H_ClassDefaults() {
	x := zv.Float64("X")
	symIn = r.ElementMap{"X": value.NewNumber(x)}
	change := []string{
		"以甲之典（写入：“丑”、X）",
		"甲之典#“子” = X",
		"甲之典#“列”#1 = X",
		"以甲之表（后增：X）",
		"甲之表#1 = X",
	}[zv.Choose(5)]
	after := zv.Choose(2) == 1
	src := "输入X\n定义T：\n    其典设为【子 = 1，列 = 【7】】\n    其表设为【1，2】\n令甲 = （新建T）\n"
	if after {
		src += change + "\n令乙 = （新建T）\n"
	} else {
		src += "令乙 = （新建T）\n" + change + "\n"
	}
	src += "输出 【乙之典之数目，乙之典#“子”，乙之典#“列”#1，乙之表之长度，乙之表#1】"
	res, err, p := run(src)
	zv.Assert(p == nil && err == nil, "class defaults: runs\n"+src)
	a, ok := res.(*value.Array)
	zv.Assert(ok && a.Length() == 5, "class defaults: result")
	want := []float64{2, 1, 7, 2, 1}
	same := true
	for k, w := range want {
		n, isN := a.GetValue()[k].(*value.Number)
		if !isN || n.GetValue() != w {
			same = false
		}
	}
	zv.Assert(same, "a default property changed in place through one object is unchanged in another object\n"+src)
}

// H_LoopVariable: the loop variable holds a copy of the element.
func H_LoopVariable() {
	symN, symIn = nil, nil
	shape := zv.Choose(3)
	var src, want string
	switch shape {
	case 0:
		src = "令A = 【【1】，【2】】\n以V遍历A：\n    以V（后增：9）\n输出 A"
		want = "[[1],[2]]"
	case 1:
		src = "令A = 【甲=【1】，乙=【2】】\n以K、V遍历A：\n    以V（后增：9）\n输出 A"
		want = "{甲=[1],乙=[2]}"
	default:
		src = "令A = 【【1】，【2】】\n令S = 【】\n以V遍历A：\n    以S（后增：V）\n以A#1（后增：7）\n输出 S"
		want = "[[1],[2]]"
	}
	res, err, p := run(src)
	zv.Assert(p == nil && err == nil, "loop program runs\n"+src)
	zv.Assert(dumpElem(res) == want, "loop variables hold independent copies\n"+src)
}

// H_ObjectsShared: objects are shared by reference; defaults are per object.
func H_ObjectsShared() {
	symN, symIn = nil, nil
	variant := zv.Choose(4)
	pre := "定义T：\n    其甲设为1\n    其表设为【1，2】\n"
	var src, want string
	switch variant {
	case 0:
		src = pre + "令O = （新建T）\n令P = O\nP之甲 = 5\n输出 O之甲"
		want = "5"
	case 1:
		src = pre + "令O = （新建T）\n令L = 【O】\n令P = L#1\nP之甲 = 6\n输出 O之甲"
		want = "6"
	case 2:
		src = pre + "令O = （新建T）\n令Q = （新建T）\n以O之表（后增：3）\n输出 Q之表"
		want = "[1,2]"
	default:
		src = pre + "令O = （新建T）\n令P = O\n以P之表（后增：3）\n输出 O之表"
		want = "[1,2,3]"
	}
	res, err, p := run(src)
	zv.Assert(p == nil && err == nil, "object program runs\n"+src)
	zv.Assert(dumpElem(res) == want, "objects are shared by reference, default properties are per object\n"+src)
}

// H_LiteralsFresh: a literal evaluates to a fresh value each time it is executed.
func H_LiteralsFresh() {
	symN, symIn = nil, nil
	variant := zv.Choose(3)
	var src, want string
	switch variant {
	case 0:
		src = "如何造？\n    输出【1，2】\n令X = （造）\n以X（后增：3）\n令Y = （造）\n输出 Y"
		want = "[1,2]"
	case 1:
		src = "令S = 【】\n令N = 0\n每当 N < 2：\n    N = N + 1\n    令T = 【1】\n    以T（后增：N）\n    以S（后增：T）\n输出 S"
		want = "[[1,1],[1,2]]"
	default:
		src = "如何造？\n    输出【甲=1】\n令X = （造）\nX#“甲” = 5\n输出（造）"
		want = "{甲=1}"
	}
	res, err, p := run(src)
	zv.Assert(p == nil && err == nil, "literal program runs\n"+src)
	zv.Assert(dumpElem(res) == want, "literals evaluate to fresh values\n"+src)
}

// H_DuplicateValue: value.DuplicateValue shares no list/dictionary node.
func H_DuplicateValue() {
	symN, symIn = nil, nil
	shape := zv.Choose(4)
	a, _, _ := run("输出 " + shapeOf(shape).lit())
	b := value.DuplicateValue(a)
	zv.Assert(dumpElem(b) == shapeOf(shape).dump(), "copy is structurally equal")
	zv.Assert(!shares(a, b), "copy shares no list or dictionary node with the original")
}

func shares(a, b r.Element) bool {
	switch x := a.(type) {
	case *value.Array:
		y, ok := b.(*value.Array)
		if !ok {
			return false
		}
		if x == y {
			return true
		}
		for k := range x.GetValue() {
			if k < len(y.GetValue()) && shares(x.GetValue()[k], y.GetValue()[k]) {
				return true
			}
		}
	case *value.HashMap:
		y, ok := b.(*value.HashMap)
		if !ok {
			return false
		}
		if x == y {
			return true
		}
		for _, k := range x.GetKeyOrder() {
			if yv, ok := y.GetValue()[k]; ok && shares(x.GetValue()[k], yv) {
				return true
			}
		}
	}
	return false
}

// W_Witness: vacuity guard.
func W_Witness() {
	symN, symIn = nil, nil
	b := zv.Bool("b")
	src := "令A = 【1】\n令B = A\n以B（后增：2）\n输出 A"
	if b {
		src = "令A = 【1】\n输出 A"
	}
	res, _, _ := run(src)
	zv.Assert(dumpElem(res) == "[1,2]", "witness")
}
