// Package c20: the prefork master keeps the worker pool within its bounds.
package c20

import (
	"github.com/DemoHn/Zn/pkg/server"
	"zsym/zv"
)

func hooks() server.ZZHooks {
	return server.ZZHooks{Choose: zv.Choose, Assert: zv.Assert, Reach: zv.Reach, Stop: zv.Stop, Symbolic: zv.Symbolic, SelectOracle: zv.SelectOracle}
}

// H_PoolBounds: every order of up to K bookkeeping events (worker registered,
// busy/idle report, worker exit) relative to the asynchronous spawn batches,
// for every configuration init <= max <= M.
func H_PoolBounds() {
	M, K := 3, 5
	if zv.Tier() == 1 {
		M, K = 4, 7
	}
	max := 1 + zv.Choose(M)
	init := 1 + zv.Choose(max)
	server.ZZMasterHarness(hooks(), init, max, K)
}

// H_BatchOvertaken: as H_PoolBounds, but a spawn goroutine started by the loop
// runs only when the schedule says so: worker exits and reports may be
// processed between the reservation of a batch and the moment it starts its
// processes.
func H_BatchOvertaken() {
	M, K := 3, 5
	if zv.Tier() == 1 {
		M, K = 4, 6
	}
	max := 1 + zv.Choose(M)
	init := 1 + zv.Choose(max)
	h := server.ZZHooks2{ZZHooks: hooks(), DeferGo: zv.DeferGoroutines, RunGo: zv.RunPendingGoroutine}
	server.ZZBatchHarness(h, init, max, K)
}

// W_Witness: vacuity guard (the harness observes the pool size).
func W_Witness() {
	h := hooks()
	h.Assert = func(c bool, l string) {
		zv.Assert(!c || l != "once quiet, at least --init-procs workers are alive", "witness")
	}
	server.ZZMasterHarness(h, 1, 2, 2)
}
