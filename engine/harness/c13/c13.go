// Package c13: every text value round-trips through a string literal.
package c13

import (
	zerr "github.com/DemoHn/Zn/pkg/error"
	"github.com/DemoHn/Zn/pkg/exec"
	"github.com/DemoHn/Zn/pkg/syntax"
	"github.com/DemoHn/Zn/pkg/syntax/zh"
	"github.com/DemoHn/Zn/pkg/value"
	"zsym/zv"
)

const (
	lq1, rq1 = 0x300C, 0x300D // 「 」
	lq2, rq2 = 0x201C, 0x201D // “ ”
	ls1, rs1 = 0x300E, 0x300F // 『 』
	ls2, rs2 = 0x2018, 0x2019 // ‘ ’
	ll, rl   = 0x300A, 0x300B // 《 》
	bk       = '`'
)

var opens = []rune{lq1, lq2, ls1, ls2, ll}

func closerOf(open rune) rune {
	switch open {
	case lq1:
		return rq1
	case lq2:
		return rq2
	case ls1:
		return rs1
	case ls2:
		return rs2
	}
	return rl
}

func pureIsQuote(c rune) bool {
	return c == lq1 || c == rq1 || c == lq2 || c == rq2 || c == ls1 || c == rs1 || c == ls2 || c == rs2 || c == ll || c == rl
}

func pureIsHex(c rune) bool { return (c >= '0' && c <= '9') || (c >= 'A' && c <= 'F') }

func pureValidScalar(c rune) bool {
	return (c >= 0 && c < 0xD800) || (c >= 0xE000 && c <= 0x10FFFF)
}

func hexVal(c rune) rune {
	if c <= '9' {
		return c - '0'
	}
	return c - 'A' + 10
}

type refResult struct {
	lit      []rune
	consumed int
	unterm   bool
	silent   bool // the manual does not decide this text
}

var escapeNames = []struct {
	name string
	val  []rune
}{
	{"CR", []rune{'\r'}}, {"LF", []rune{'\n'}}, {"CRLF", []rune{'\r', '\n'}},
	{"TAB", []rune{'\t'}}, {"SP", []rune{' '}}, {"BK", []rune{'`'}},
}

// matchAt: does s[i:] start with the concrete text w?
func matchAt(s []rune, i int, w string) bool {
	ws := []rune(w)
	if i+len(ws) > len(s) {
		return false
	}
	for k, c := range ws {
		if s[i+k] != c {
			return false
		}
	}
	return true
}

// namePrefixLen: length of the longest run after the backtick at s[i] that the
// escape recogniser could still be matching (used to delimit the region where
// the manual is silent: "`" partial-name "`").
func partialThenBacktick(s []rune, i int) bool {
	// s[i] is a backtick; the text `X..` where X.. is a proper prefix of an
	// escape name / U+hex and is directly followed by another backtick
	cands := []string{"", "C", "CR", "CRL", "L", "T", "TA", "S", "B", "U", "U+"}
	for _, c := range cands {
		if matchAt(s, i+1, c) && i+1+len([]rune(c)) < len(s) && s[i+1+len([]rune(c))] == bk {
			return true
		}
	}
	// U+ followed by more than 8 hex digits and a backtick
	if matchAt(s, i+1, "U+") {
		k := i + 3
		for k < len(s) && pureIsHex(s[k]) {
			k++
		}
		if k-(i+3) > 8 && k < len(s) && s[k] == bk {
			return true
		}
	}
	return false
}

// refDecode is the string-literal decoder written from chapter 6 of the manual.
// s[0] is the opening quote.
func refDecode(s []rune) refResult {
	open := s[0]
	closer := closerOf(open)
	depth := 1
	var lit []rune
	i := 1
	for {
		if i >= len(s) {
			return refResult{unterm: true}
		}
		c := s[i]
		switch {
		case c == open:
			depth++
			lit = append(lit, c)
			i++
		case c == closer:
			depth--
			if depth == 0 {
				return refResult{lit: lit, consumed: i + 1}
			}
			lit = append(lit, c)
			i++
		case c == bk:
			// a quote wrapped in backticks denotes itself
			if i+2 < len(s) && pureIsQuote(s[i+1]) && s[i+2] == bk {
				lit = append(lit, s[i+1])
				i += 3
				continue
			}
			done := false
			for _, e := range escapeNames {
				if matchAt(s, i+1, e.name+"`") {
					lit = append(lit, e.val...)
					i += 2 + len(e.name)
					done = true
					break
				}
			}
			if done {
				continue
			}
			if matchAt(s, i+1, "U+") {
				k := i + 3
				var v rune
				for k < len(s) && k < i+3+8 && pureIsHex(s[k]) {
					v = v*16 + hexVal(s[k])
					k++
				}
				if k > i+3 && k < len(s) && s[k] == bk {
					if !pureValidScalar(v) || k-(i+3) == 8 && s[i+3] >= '8' {
						return refResult{silent: true} // not a Unicode scalar: unspecified
					}
					lit = append(lit, v)
					i = k + 1
					continue
				}
			}
			if partialThenBacktick(s, i) {
				return refResult{silent: true}
			}
			// any other backtick text is kept literally
			lit = append(lit, c)
			i++
		default:
			lit = append(lit, c)
			i++
		}
	}
}

func lexString(src []rune) (tk syntax.Token, err error, p interface{}) {
	defer func() { p = recover() }()
	l := syntax.NewLexer(src)
	tk, err = zh.NextToken(l)
	return
}

func sameRunes(a, b []rune) bool {
	if len(a) != len(b) {
		return false
	}
	for k := range a {
		if a[k] != b[k] {
			return false
		}
	}
	return true
}

func hasNUL(src []rune) bool {
	for _, c := range src {
		if c == 0 {
			return true
		}
	}
	return false
}

func checkLiteral(src []rune, tag string) {
	if hasNUL(src) {
		// kept apart so that the known U+0000 finding is identified by its label
		tag = tag + "[text contains U+0000]"
	}
	tk, err, p := lexString(src)
	zv.Assert(p == nil, tag+": lexer does not panic")
	ref := refDecode(src)
	zv.Assume(!ref.silent)
	if ref.unterm {
		zv.Reach("unterminated")
		zv.Assert(err != nil, tag+": unterminated literal is an error")
		_, isSyn := err.(*zerr.SyntaxError)
		zv.Assert(isSyn, tag+": unterminated literal is a syntax error")
		return
	}
	zv.Reach("closed")
	zv.Assert(err == nil, tag+": terminated literal is accepted")
	zv.Assert(tk.EndIdx == ref.consumed, tag+": literal ends at its own closing quote at depth zero")
	zv.Assert(sameRunes(tk.Literal, ref.lit), tag+": literal value as documented")
}

// H_L1_Free: opening quote + up to N unconstrained characters.
func H_L1_Free() {
	N := 2
	if zv.Tier() == 1 {
		N = 3
	}
	open := opens[zv.Choose(len(opens))]
	n := zv.Choose(N + 1)
	src := make([]rune, n+1)
	src[0] = open
	for k := 1; k <= n; k++ {
		src[k] = zv.Rune("c")
		zv.Assume(pureValidScalar(src[k]))
	}
	checkLiteral(src, "L1")
}

// H_L1_Escape: “ prefix ` k free characters ` closer: escapes in context.
func H_L1_Escape() {
	K := 3
	if zv.Tier() == 1 {
		K = 4
	}
	open := opens[zv.Choose(2)] // the two double-quote families
	k := zv.Choose(K) + 1
	src := []rune{open, 'x', bk}
	for j := 0; j < k; j++ {
		c := zv.Rune("e")
		zv.Assume(pureValidScalar(c))
		src = append(src, c)
	}
	src = append(src, bk, 'y', closerOf(open))
	checkLiteral(src, "L1e")
}

// H_L1_Hex: `U+ h{1..8} ` with symbolic hex digits.
func H_L1_Hex() {
	k := zv.Choose(8) + 1
	src := []rune{lq2, bk, 'U', '+'}
	for j := 0; j < k; j++ {
		c := zv.Rune("h")
		zv.Assume(pureIsHex(c))
		src = append(src, c)
	}
	src = append(src, bk, rq2)
	checkLiteral(src, "L1h")
}

// encodeChar: how the manual says a character can always be written.
func encodeChar(c rune) []rune {
	switch {
	case pureIsQuote(c):
		return []rune{bk, c, bk}
	case c == bk:
		return []rune{bk, 'B', 'K', bk}
	case c == 0:
		return []rune{bk, 'U', '+', '0', bk}
	}
	return []rune{c}
}

// H_L2_Encoder: every text of up to 3 characters can be written as a literal
// that reads back exactly (through the lexer and through 输出‹literal›).
func H_L2_Encoder() {
	N := 2
	if zv.Tier() == 1 {
		N = 3
	}
	n := zv.Choose(N + 1)
	text := make([]rune, n)
	src := []rune{lq2}
	for k := range text {
		text[k] = zv.Rune("t")
		zv.Assume(pureValidScalar(text[k]))
		src = append(src, encodeChar(text[k])...)
	}
	src = append(src, rq2)
	tk, err, p := lexString(src)
	zv.Assert(p == nil && err == nil, "L2: encoded literal is accepted")
	zv.Assert(tk.EndIdx == len(src), "L2: encoded literal is one token")
	zv.Assert(sameRunes(tk.Literal, text), "L2: literal reads back exactly")
	// end to end
	prog := append([]rune("输出"), src...)
	res, err2 := exec.NewInterpreter("v").LoadScript(prog).Execute(nil)
	zv.Assert(err2 == nil, "L2: 输出‹literal› runs")
	sv, ok := res.(*value.String)
	zv.Assert(ok, "L2: 输出‹literal› yields a text")
	zv.Assert(sv.GetValue() == string(text), "L2: 输出‹literal› yields the text")
	zv.Reach("roundtrip")
}

// W_L1_Witness: the oracle is reachable and can fail.
func W_L1_Witness() {
	src := []rune{lq2, zv.Rune("c"), rq2}
	zv.Assume(pureValidScalar(src[1]))
	tk, _, _ := lexString(src)
	zv.Assert(len(tk.Literal) == 1, "witness")
}
