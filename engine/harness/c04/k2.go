package c04

import (
	"strconv"

	"github.com/DemoHn/Zn/pkg/exec"
	r "github.com/DemoHn/Zn/pkg/runtime"
	"github.com/DemoHn/Zn/pkg/syntax"
	"zsym/zv"
)

func pureValidScalar(c rune) bool {
	return (c >= 0 && c < 0xD800) || (c >= 0xE000 && c <= 0x10FFFF)
}

func matchID(rs []rune) (t r.IDType, err error, p interface{}) {
	defer func() { p = recover() }()
	id := &syntax.ID{}
	id.SetLiteral(rs)
	t, err = exec.MatchIDType(id)
	return
}

// H_MatchIDType: classification of an identifier of up to L symbolic
// characters as number / rejected / name agrees with the documented numeric
// form, and a number's value is strconv's reading of the normalised decimal.
func H_MatchIDType() {
	n := zv.Choose(maxLenK2()) + 1
	rs := make([]rune, n)
	for k := range rs {
		rs[k] = zv.Rune("c")
		zv.Assume(pureValidScalar(rs[k]))
	}
	isNum, startsLike, norm := refNumber(rs)
	t, err, p := matchID(rs)
	zv.Assert(p == nil, "MatchIDType does not panic")
	switch {
	case isNum:
		zv.Reach("number")
		zv.Assert(err == nil, "numeric form accepted")
		num, ok := t.(*r.IDNumber)
		zv.Assert(ok, "numeric form classified as number")
		want, _ := strconv.ParseFloat(string(norm), 64)
		zv.Assert(zv.SameFloat(num.NumValue, want), "number value is the decimal's double")
	case startsLike:
		zv.Reach("rejected")
		zv.Assert(err != nil, "starts like a number but is not one: rejected")
	default:
		zv.Reach("name")
		zv.Assert(err == nil, "non-numeric identifier accepted")
		_, ok := t.(*r.IDName)
		zv.Assert(ok, "non-numeric identifier classified as name")
	}
}

// W_MatchIDType_Witness: vacuity guard - the harness reaches its assertions.
func W_MatchIDType_Witness() {
	rs := []rune{zv.Rune("c"), zv.Rune("c")}
	zv.Assume(pureValidScalar(rs[0]) && pureValidScalar(rs[1]))
	isNum, _, _ := refNumber(rs)
	t, err, _ := matchID(rs)
	_, _ = t, err
	zv.Assert(!isNum, "witness")
}

var K2Len = 0

func maxLenK2() int {
	if K2Len > 0 {
		return K2Len
	}
	if zv.Tier() == 1 {
		return 7
	}
	return 5
}
