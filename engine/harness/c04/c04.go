// Package c04: harnesses for property C04 (tokenisation of unspaced text).
package c04

import (
	"github.com/DemoHn/Zn/pkg/syntax"
	"zsym/zv"
)

// documented identifier letter classes (manual appendix): the reference for
// K1 is a plain linear scan of the documented/declared ranges, done by the
// harness over a copy of the table obtained through the exported API.

// H_IdInRange_Total: IdInRange never panics and is a function of the code
// point only (two lookups agree), for every int32.
func H_IdInRange_Total() {
	zv.NoSummaries()
	r := zv.Rune("r")
	a := syntax.IdInRange(r)
	b := syntax.IdInRange(r)
	zv.Assert(a == b, "IdInRange deterministic")
	if r > 0xffff || r < 0 {
		zv.Reach("outside-bmp")
		zv.Assert(!a, "outside BMP is never an identifier char")
	}
	if a {
		zv.Reach("in")
	} else {
		zv.Reach("out")
	}
}

func pureIsDigit(c rune) bool { return c >= '0' && c <= '9' }

// refNumber: the documented numeric form
//
//	[+-]? D+ (\. D+)? ( ([eE][+-] | \*(10)?\^ [+-]?) D+ )?
//
// returns (isNumber, startsLikeNumber, normalised decimal text for strconv).
func refNumber(s []rune) (bool, bool, []rune) {
	i := 0
	n := len(s)
	var norm []rune
	if i < n && (s[i] == '+' || s[i] == '-') {
		norm = append(norm, s[i])
		i++
	}
	if !(i < n && pureIsDigit(s[i])) {
		return false, false, nil
	}
	for i < n && pureIsDigit(s[i]) {
		norm = append(norm, s[i])
		i++
	}
	if i < n && s[i] == '.' {
		j := i + 1
		if !(j < n && pureIsDigit(s[j])) {
			return false, true, nil
		}
		norm = append(norm, '.')
		i = j
		for i < n && pureIsDigit(s[i]) {
			norm = append(norm, s[i])
			i++
		}
	}
	if i == n {
		return true, true, norm
	}
	// exponent
	switch {
	case s[i] == 'e' || s[i] == 'E':
		i++
		if !(i < n && (s[i] == '+' || s[i] == '-')) {
			return false, true, nil
		}
		norm = append(norm, s[i-1], s[i])
		i++
	case s[i] == '*':
		i++
		if i+1 < n && s[i] == '1' && s[i+1] == '0' {
			i += 2
		}
		if !(i < n && s[i] == '^') {
			return false, true, nil
		}
		i++
		norm = append(norm, 'e')
		if i < n && (s[i] == '+' || s[i] == '-') {
			norm = append(norm, s[i])
			i++
		}
	default:
		return false, true, nil
	}
	if !(i < n && pureIsDigit(s[i])) {
		return false, true, nil
	}
	for i < n && pureIsDigit(s[i]) {
		norm = append(norm, s[i])
		i++
	}
	if i != n {
		return false, true, nil
	}
	return true, true, norm
}
