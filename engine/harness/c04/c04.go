// Package c04: harnesses for property C04 (tokenisation of unspaced text).
package c04

import (
	"github.com/DemoHn/Zn/pkg/syntax"
	"zsym/zv"
)

// documented identifier letter classes (manual appendix): the reference for
// K1 is a plain linear scan of the documented/declared ranges, done by the
// harness over a copy of the table obtained through the exported API.

// H_IdInRange_Total: IdInRange never panics and is a function of the code
// point only (two lookups agree), for every int32.
func H_IdInRange_Total() {
	r := zv.Rune("r")
	a := syntax.IdInRange(r)
	b := syntax.IdInRange(r)
	zv.Assert(a == b, "IdInRange deterministic")
	if r > 0xffff || r < 0 {
		zv.Reach("outside-bmp")
		zv.Assert(!a, "outside BMP is never an identifier char")
	}
	if a {
		zv.Reach("in")
	} else {
		zv.Reach("out")
	}
}
