package c04

import (
	"github.com/DemoHn/Zn/pkg/syntax"
	"github.com/DemoHn/Zn/pkg/syntax/zh"
	"zsym/zv"
)

// ---- K3: the real tokenizer against a reference greedy segmenter

type kw struct {
	text string
	typ  uint8
}

// the 34 keywords of the manual (chapter 1) with the token kinds of the implementation
var keywords = []kw{
	{"令", zh.TypeDeclareW}, {"为", zh.TypeLogicYesW}, {"以", zh.TypeVarOneW}, {"其", zh.TypeObjThisW},
	{"或", zh.TypeLogicOrW}, {"且", zh.TypeLogicAndW}, {"之", zh.TypeObjDotW}, {"的", zh.TypeObjDotIIW},
	{"设为", zh.TypeAssignW}, {"恒为", zh.TypeAssignConstW}, {"新建", zh.TypeObjNewW}, {"何为", zh.TypeGetterW},
	{"不为", zh.TypeLogicNoW}, {"如果", zh.TypeCondW}, {"再如", zh.TypeCondOtherW}, {"输出", zh.TypeReturnW},
	{"如何", zh.TypeFuncW}, {"拦截", zh.TypeCatchErrorW}, {"导入", zh.TypeImportW}, {"定义", zh.TypeObjDefineW},
	{"得到", zh.TypeGetResultW}, {"输入", zh.TypeInputW}, {"否则", zh.TypeCondElseW}, {"每当", zh.TypeWhileLoopW},
	{"遍历", zh.TypeIteratorW}, {"等于", zh.TypeLogicEqualW}, {"大于", zh.TypeLogicGtW}, {"小于", zh.TypeLogicLtW},
	{"抛出", zh.TypeThrowErrorW}, {"不等于", zh.TypeLogicNotEqW}, {"不大于", zh.TypeLogicLteW}, {"不小于", zh.TypeLogicGteW},
	{"继续循环", zh.TypeContinueW}, {"结束循环", zh.TypeBreakW},
}

// alphabet of K3: every glyph occurring in a keyword, one Latin letter, one
// CJK letter that is in no keyword, a digit, blank, comma, plus, backtick
var k3Alphabet = buildAlphabet()

func buildAlphabet() []rune {
	seen := map[rune]bool{}
	var out []rune
	for _, k := range keywords {
		for _, c := range k.text {
			if !seen[c] {
				seen[c] = true
				out = append(out, c)
			}
		}
	}
	return append(out, 'a', '中', '1', ' ', '，', '+', '`')
}

func pureInK3(c rune) bool {
	for _, a := range k3Alphabet {
		if c == a {
			return true
		}
	}
	return false
}

type rtok struct {
	typ        uint8
	lit        string
	start, end int
}

func keywordAt(s []rune, i int) (kw, bool) {
	for _, k := range keywords {
		ks := []rune(k.text)
		if i+len(ks) > len(s) {
			continue
		}
		ok := true
		for j, c := range ks {
			if s[i+j] != c {
				ok = false
				break
			}
		}
		if ok {
			return k, true
		}
	}
	return kw{}, false
}

func isLetterK3(c rune) bool {
	// identifier characters of the alphabet: everything except blank, comma, backtick
	return c != ' ' && c != '，' && c != '`' && c != 0
}

// refTokens: greedy segmentation as documented; ok=false when the text must be rejected.
func refTokens(s []rune) (toks []rtok, ok bool) {
	i := 0
	for {
		for i < len(s) && s[i] == ' ' {
			i++
		}
		if i >= len(s) {
			return toks, true
		}
		c := s[i]
		switch {
		case c == '`':
			j := i + 1
			for j < len(s) && isLetterK3(s[j]) {
				j++
			}
			if j >= len(s) || s[j] != '`' {
				return toks, false
			}
			toks = append(toks, rtok{zh.TypeIdentifier, string(s[i+1 : j]), i, j + 1})
			i = j + 1
			continue
		case c == '，':
			toks = append(toks, rtok{zh.TypeCommaSep, "", i, i + 1})
			i++
			continue
		case c == '+' && i+1 < len(s) && (s[i+1] == ' ' || s[i+1] == '，'):
			// an operator only when followed by a blank, punctuation or quote
			toks = append(toks, rtok{zh.TypePlus, "", i, i + 1})
			i++
			continue
		}
		if k, isK := keywordAt(s, i); isK {
			n := len([]rune(k.text))
			toks = append(toks, rtok{k.typ, "", i, i + n})
			i += n
			continue
		}
		// identifier: up to a blank, punctuation, backtick, or a position where a keyword begins
		j := i + 1
		for j < len(s) && s[j] != ' ' && s[j] != '，' {
			if _, isK := keywordAt(s, j); isK {
				break
			}
			if s[j] == '`' {
				return toks, false // a backtick inside an identifier is an invalid character
			}
			j++
		}
		toks = append(toks, rtok{zh.TypeIdentifier, string(s[i:j]), i, j})
		i = j
	}
}

func lexAll(src []rune) (toks []rtok, failed bool, p interface{}) {
	defer func() { p = recover() }()
	l := syntax.NewLexer(src)
	for k := 0; k < len(src)+2; k++ {
		tk, err := zh.NextToken(l)
		if err != nil {
			return toks, true, nil
		}
		if tk.Type == zh.TypeEOF {
			return toks, false, nil
		}
		toks = append(toks, rtok{tk.Type, string(tk.Literal), tk.StartIdx, tk.EndIdx})
	}
	return toks, true, nil
}

// H_Tokenizer: every text of up to N characters over the K3 alphabet is cut
// exactly as the reference greedy segmenter cuts it.
func H_Tokenizer() {
	N := 2
	if zv.Tier() == 1 {
		N = 3
	}
	n := 1 + zv.Choose(N)
	src := make([]rune, n)
	for k := range src {
		src[k] = zv.Rune("c")
		zv.Assume(pureInK3(src[k]))
	}
	zv.Assume(src[0] != ' ') // a line that starts with a blank is an indentation matter (C05), not segmentation
	got, failed, p := lexAll(src)
	want, ok := refTokens(src)
	zv.Assert(p == nil, "tokenizer: no panic")
	if !ok {
		zv.Reach("rejected")
		zv.Assert(failed, "text the segmenter rejects is rejected")
		return
	}
	zv.Reach("accepted")
	zv.Assert(!failed, "text the segmenter accepts is accepted")
	same := len(got) == len(want)
	if same {
		for k := range got {
			if got[k].typ != want[k].typ || got[k].start != want[k].start || got[k].end != want[k].end {
				same = false
			}
			if want[k].typ == zh.TypeIdentifier && got[k].lit != want[k].lit {
				same = false
			}
		}
	}
	zv.Assert(same, "keywords are cut out greedily, the rest are identifiers (kind, extent and name of every token)")
}

// ---- K3b: unspaced identifiers over letters, digits and + - * / % . _

var k3bTail = []rune{'a', '中', '1', '+', '-', '*', '/', '%', '.', '_'}

func pureInK3bTail(c rune) bool {
	for _, a := range k3bTail {
		if c == a {
			return true
		}
	}
	return false
}

// H_IdentifierRuns: a letter followed by up to N characters out of letters,
// digits and + - * / % . _ (no blank, no punctuation, no keyword glyph, no
// comment opener, not ending in an operator character) is ONE identifier with
// exactly that name - the same name its backtick spelling yields.
func H_IdentifierRuns() {
	N := 3
	if zv.Tier() == 1 {
		N = 4
	}
	n := 1 + zv.Choose(N)
	src := make([]rune, 1+n)
	if zv.Choose(2) == 0 {
		src[0] = 'a'
	} else {
		src[0] = '中'
	}
	for k := 1; k <= n; k++ {
		src[k] = zv.Rune("c")
		zv.Assume(pureInK3bTail(src[k]))
		if k > 1 {
			// no comment opener: // and /*
			zv.Assume(!(src[k-1] == '/' && (src[k] == '/' || src[k] == '*')))
		}
	}
	last := src[n]
	zv.Assume(last != '+' && last != '-' && last != '*' && last != '/') // what an operator character at the very end means is not specified
	got, failed, p := lexAll(src)
	zv.Assert(p == nil, "identifier run: no panic")
	zv.Assert(!failed, "a run of identifier characters is accepted")
	zv.Assert(len(got) == 1 && got[0].typ == zh.TypeIdentifier && got[0].lit == string(src) && got[0].start == 0 && got[0].end == len(src),
		"+ - * / % . _ inside an unspaced run are part of the identifier (one identifier token with the whole text as its name)")
	quoted := append(append([]rune{'`'}, src...), '`')
	gotQ, failedQ, pQ := lexAll(quoted)
	zv.Assert(pQ == nil && !failedQ && len(gotQ) == 1 && gotQ[0].typ == zh.TypeIdentifier && gotQ[0].lit == string(src),
		"the backtick spelling of the same text is the same single identifier")
	zv.Reach("one-identifier")
}

// H_KeywordAfterName: every keyword written directly after a name of one or
// two characters (letter, wide letter, letter+digit) and optionally followed by
// one more character is cut out exactly as the reference segmenter says.
func H_KeywordAfterName() {
	k := keywords[zv.Choose(len(keywords))]
	var src []rune
	switch zv.Choose(4) {
	case 0:
		src = []rune{'a'}
	case 1:
		src = []rune{'中'}
	case 2:
		src = []rune{'a', '1'}
	default:
		src = []rune{'中', 'a'}
	}
	src = append(src, []rune(k.text)...)
	switch zv.Choose(4) {
	case 1:
		src = append(src, '1')
	case 2:
		src = append(src, '中')
	case 3:
		src = append(src, ' ', 'a')
	}
	got, failed, p := lexAll(src)
	want, ok := refTokens(src)
	zv.Assert(p == nil, "keyword after name: no panic")
	if !ok {
		zv.Assert(failed, "keyword after name: rejected as the segmenter rejects it")
		return
	}
	zv.Assert(!failed, "keyword after name: accepted: "+string(src))
	same := len(got) == len(want)
	if same {
		for j := range got {
			if got[j].typ != want[j].typ || got[j].start != want[j].start || got[j].end != want[j].end {
				same = false
			}
			if want[j].typ == zh.TypeIdentifier && got[j].lit != want[j].lit {
				same = false
			}
		}
	}
	zv.Assert(same, "a keyword directly after a name is cut out greedily (longest keyword at the first position where one begins): "+string(src))
	zv.Reach("cut")
}
