// Package c19: JSON generation and parsing are faithful inverses.
package c19

import (
	"encoding/json"

	"github.com/DemoHn/Zn/pkg/exec"
	r "github.com/DemoHn/Zn/pkg/runtime"
	"github.com/DemoHn/Zn/pkg/value"
	libjson "github.com/DemoHn/Zn/stdlib/json"
	"zsym/zv"
)

func run(src string, in r.ElementMap) (res r.Element, err error, p interface{}) {
	defer func() { p = recover() }()
	res, err = exec.NewInterpreter("v").SetExternalLibs([]*r.Library{libjson.Export()}).LoadScript([]rune(src)).Execute(in)
	return
}

// symbolic JSON-representable leaf
func leaf(name string, finite bool) r.Element {
	switch zv.Choose(4) {
	case 0:
		f := zv.Float64(name)
		if finite {
			zv.Assume(f == f && f-f == 0) // finite: not NaN, not infinite
		}
		return value.NewNumber(f)
	case 1:
		return value.NewBool(zv.Bool(name))
	case 2:
		return value.NewString(jsonTexts[zv.Choose(len(jsonTexts))])
	}
	return value.NewNull()
}

// texts with a quote and a backslash, and texts that only look like JSON
// escapes (six ordinary characters \ u 0 0 3 c), control and astral characters
var jsonTexts = []string{"文“本\\", "\\u003c甲\\u0026", "<>&", "行\n尾\t\u0001", "😀\u2028"}

// keys chosen so that insertion order differs from sorted (document) order
var keyPool = []string{"甲", "乙", "丙"}

func kv(k string, v r.Element) value.KVPair { return value.KVPair{Key: k, Value: v} }

// mkDict: one of a fixed set of nested shapes; every leaf is symbolic.
func mkDict(shape int, finite bool) *value.HashMap {
	l := func() r.Element { return leaf("v", finite) }
	switch shape {
	case 0:
		return value.NewHashMap([]value.KVPair{kv("甲", l())})
	case 1:
		return value.NewHashMap([]value.KVPair{kv("甲", l()), kv("乙", l())})
	case 2:
		return value.NewHashMap([]value.KVPair{kv("甲", value.NewArray([]r.Element{l(), l()})), kv("乙", l())})
	case 3:
		return value.NewHashMap([]value.KVPair{kv("甲", value.NewHashMap([]value.KVPair{kv("丙", l()), kv("乙", l())}))})
	case 4:
		return value.NewHashMap([]value.KVPair{kv("甲", value.NewArray([]r.Element{value.NewHashMap([]value.KVPair{kv("丙", l())})})), kv("乙", l())})
	}
	return value.NewHashMap([]value.KVPair{
		kv("乙", value.NewHashMap([]value.KVPair{kv("甲", l()), kv("丙", value.NewArray([]r.Element{l()}))})),
		kv("甲", value.NewArray([]r.Element{l(), l()}))})
}

// mkShared: dictionaries in which one list / dictionary object occurs at two
// places (as after 写入 of one variable under two keys).
func mkShared(shape int, finite bool) *value.HashMap {
	l := func() r.Element { return leaf("v", finite) }
	switch shape {
	case 0:
		shared := value.NewArray([]r.Element{l(), l()})
		return value.NewHashMap([]value.KVPair{kv("甲", shared), kv("乙", shared)})
	case 1:
		shared := value.NewHashMap([]value.KVPair{kv("丙", l())})
		return value.NewHashMap([]value.KVPair{kv("甲", value.NewArray([]r.Element{shared, shared}))})
	}
	shared := value.NewArray([]r.Element{l()})
	return value.NewHashMap([]value.KVPair{kv("甲", value.NewHashMap([]value.KVPair{kv("乙", shared)})), kv("丙", shared)})
}

// H_RoundTripShared: the round trip of dictionaries with a shared sub-container.
func H_RoundTripShared() {
	d := mkShared(zv.Choose(3), true)
	res, err, p := run(prog+"输出 E 为 D", r.ElementMap{"D": d})
	zv.Assert(p == nil, "round trip (shared): no panic")
	zv.Assert(err == nil, "round trip (shared): generating and parsing succeed")
	b, ok := res.(*value.Bool)
	zv.Assert(ok && b.GetValue(), "解析JSON(生成JSON(d)) 为 d also when one list / dictionary occurs twice inside d")
}

const prog = "导入《@JSON》\n输入D\n令T = （生成JSON：D）\n令E = （解析JSON：T）\n"

// H_RoundTrip: 解析JSON(生成JSON(d)) 为 d for symbolic JSON-representable
// dictionaries (depth <= 2), under every Go map iteration order.
func H_RoundTrip() {
	shapes := 5
	if zv.Tier() == 1 {
		shapes = 6
	}
	d := mkDict(zv.Choose(shapes), true)
	zv.SetMapOrder(1)
	res, err, p := run(prog+"输出 E 为 D", r.ElementMap{"D": d})
	zv.SetMapOrder(0)
	zv.Assert(p == nil, "round trip: no panic")
	zv.Assert(err == nil, "round trip: generating and parsing succeed")
	b, ok := res.(*value.Bool)
	zv.Assert(ok && b.GetValue(), "解析JSON(生成JSON(d)) 为 d")
}

// H_KeyOrder: parsed objects list their keys in document order.  Under the
// encoding/json contract the document order of a generated object is the
// sorted key order.
func H_KeyOrder() {
	x := zv.Float64("x")
	zv.Assume(x == x && x-x == 0)
	d := value.NewHashMap([]value.KVPair{{Key: "乙", Value: value.NewNumber(x)}, {Key: "甲", Value: value.NewNumber(1)}})
	zv.SetMapOrder(1)
	res, err, p := run(prog+"输出 E之所有索引", r.ElementMap{"D": d})
	zv.SetMapOrder(0)
	zv.Assert(p == nil && err == nil, "key order: runs")
	arr, ok := res.(*value.Array)
	zv.Assert(ok && arr.Length() == 2, "key order: two keys")
	k0, _ := arr.GetValue()[0].(*value.String)
	k1, _ := arr.GetValue()[1].(*value.String)
	zv.Assert(k0 != nil && k1 != nil && k0.GetValue() == "乙" && k1.GetValue() == "甲", "parsed object keys follow document order")
}

// H_NonFinite: values JSON cannot represent raise a catchable exception.
func H_NonFinite() {
	f := zv.Float64("f")
	zv.Assume(!(f == f && f-f == 0)) // NaN or infinite
	d := value.NewHashMap([]value.KVPair{{Key: "甲", Value: value.NewNumber(f)}})
	res, err, p := run("导入《@JSON》\n输入D\n输出（生成JSON：D）\n拦截异常：\n    输出 “已拦截”", r.ElementMap{"D": d})
	zv.Assert(p == nil, "non-finite: no panic")
	s, ok := res.(*value.String)
	zv.Assert(err == nil && ok && s.GetValue() == "已拦截", "a non-finite number raises an exception a 拦截 handler can catch")
}

var malformed = []string{"{", "", "[1,2]", "{\"a\":}", "{\"a\":1,}", "nul", "{'a':1}", "{\"a\":1}x",
	"{\"a\":1}}", "{\"a\":1},", "{\"a\":1}{\"b\":2}", "{\"a\":1} []", "x{\"a\":1}", "{\"a\":1}\"b\":2}", "{\"a\":01}", "{\"a\":1 \"b\":2}", "{\"a\":tru}", "{\"a\":\"x}", "{a:1}"}

const parseProg = "导入《@JSON》\n输入T\n令E = （解析JSON：T）\n输出 “已解析”\n拦截异常：\n    输出 “已拦截”"

func parses(text string) (parsed bool, ok bool) {
	res, err, p := run(parseProg, r.ElementMap{"T": value.NewString(text)})
	if p != nil || err != nil {
		return false, false
	}
	s, isText := res.(*value.String)
	if !isText {
		return false, false
	}
	return s.GetValue() == "已解析", s.GetValue() == "已解析" || s.GetValue() == "已拦截"
}

// H_Malformed: malformed JSON raises a catchable exception; valid JSON parses.
func H_Malformed() {
	k := zv.Choose(len(malformed) + 1)
	if k == len(malformed) {
		text := "{\"a\":[1,true,null,\"x\"],\"b\":{\"c\":2.5}}"
		res, err, p := run("导入《@JSON》\n输入T\n令E = （解析JSON：T）\n输出 E#“b”#“c”\n拦截异常：\n    输出 “已拦截”", r.ElementMap{"T": value.NewString(text)})
		zv.Assert(p == nil, "malformed: no panic")
		n, ok := res.(*value.Number)
		zv.Assert(err == nil && ok && n.GetValue() == 2.5, "valid JSON parses to the same structure")
		return
	}
	parsed, ok := parses(malformed[k])
	zv.Assert(ok, "malformed: no panic, no uncaught error")
	zv.Assert(!parsed, "malformed JSON raises an exception a 拦截 handler can catch: "+malformed[k])
}

const mutDoc = "{\"a\":[1,true],\"b\":{\"c\":2.5},\"d\":\"x\"}"

var mutChars = []byte{'}', '{', ',', '"', ':', ']', 'x', '0', ' '}

// H_Mutations: one character of a valid document deleted, replaced or
// inserted at a symbolic position: the text is accepted exactly when it is
// still a JSON document whose top level is an object.
func H_Mutations() {
	doc := []byte(mutDoc)
	pos := zv.Int("pos", 0, len(doc))
	at := 0
	for k := 0; k <= len(doc); k++ {
		if pos == k {
			at = k
		}
	}
	op := zv.Choose(3)
	var text []byte
	switch op {
	case 0: // delete
		if at >= len(doc) {
			return
		}
		text = append(append(text, doc[:at]...), doc[at+1:]...)
	case 1: // insert
		c := mutChars[zv.Choose(len(mutChars))]
		text = append(append(append(text, doc[:at]...), c), doc[at:]...)
	default: // replace
		if at >= len(doc) {
			return
		}
		c := mutChars[zv.Choose(len(mutChars))]
		text = append(append(append(text, doc[:at]...), c), doc[at+1:]...)
	}
	want := json.Valid(text) && firstNonBlank(text) == '{'
	parsed, ok := parses(string(text))
	zv.Assert(ok, "mutated document: no panic, no uncaught error")
	if parsed != want {
		zv.Observe("text", string(text))
	}
	if want {
		zv.Reach("still-valid")
		zv.Assert(parsed, "a document that is still valid JSON with an object at top level parses")
	} else {
		zv.Reach("invalid")
		zv.Assert(!parsed, "a document that is no longer valid JSON is rejected with a catchable exception")
	}
}

func firstNonBlank(b []byte) byte {
	for _, c := range b {
		if c != ' ' && c != '\t' && c != '\n' && c != '\r' {
			return c
		}
	}
	return 0
}

// H_EmptyCollections: empty list / dictionary survive the round trip.
func H_EmptyCollections() {
	variant := zv.Choose(2)
	var inner r.Element = value.NewArray([]r.Element{})
	if variant == 1 {
		inner = value.NewHashMap(nil)
	}
	d := value.NewHashMap([]value.KVPair{{Key: "甲", Value: inner}})
	res, err, p := run(prog+"输出 E 为 D", r.ElementMap{"D": d})
	zv.Assert(p == nil && err == nil, "empty collections: runs")
	b, ok := res.(*value.Bool)
	zv.Assert(ok && b.GetValue(), "an empty list / dictionary survives the round trip")
}

// H_GeneratedOrder: generated JSON lists keys in the dictionary's own
// (insertion) order, like iteration, 所有索引 and the displayed form do.
func H_GeneratedOrder() {
	d := value.NewHashMap([]value.KVPair{kv("甲", value.NewNumber(1)), kv("乙", value.NewNumber(2))})
	res, err, p := run("导入《@JSON》\n输入D\n输出（生成JSON：D）", r.ElementMap{"D": d})
	zv.Assert(p == nil && err == nil, "generated order: runs")
	s, ok := res.(*value.String)
	zv.Assert(ok, "generated order: text")
	text := []rune(s.GetValue())
	ia, ib := -1, -1
	for k, c := range text {
		if c == '甲' {
			ia = k
		}
		if c == '乙' {
			ib = k
		}
	}
	zv.Assert(ia >= 0 && ib >= 0 && ia < ib, "generated JSON follows the dictionary's insertion order")
}

// W_Witness: vacuity guard.
func W_Witness() {
	x := zv.Float64("x")
	zv.Assume(x == x && x-x == 0)
	d := value.NewHashMap([]value.KVPair{{Key: "甲", Value: value.NewNumber(x)}})
	res, _, _ := run(prog+"输出 E#“甲”", r.ElementMap{"D": d})
	n, _ := res.(*value.Number)
	zv.Assert(n != nil && n.GetValue() != x, "witness")
}
