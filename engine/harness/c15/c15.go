// Package c15: modules load once, export read-only names, and cycles are reported.
package c15

import (
	"fmt"

	zerr "github.com/DemoHn/Zn/pkg/error"
	"github.com/DemoHn/Zn/pkg/exec"
	r "github.com/DemoHn/Zn/pkg/runtime"
	"github.com/DemoHn/Zn/pkg/syntax"
	"github.com/DemoHn/Zn/pkg/syntax/zh"
	"github.com/DemoHn/Zn/pkg/value"
	"zsym/zv"
)

var trace []float64

func install() {
	trace = nil
	exec.GlobalValues["显示"] = value.NewFunction(func(receiver r.Element, params []r.Element) (r.Element, error) {
		for _, p := range params {
			if n, ok := p.(*value.Number); ok {
				trace = append(trace, n.GetValue())
			} else {
				trace = append(trace, -1)
			}
		}
		return value.NewNull(), nil
	})
}

// runModules executes main with the other sources reachable through the module finder.
func runModules(mainSrc string, mods map[string]string) (res r.Element, err error, p interface{}) {
	defer func() { p = recover() }()
	install()
	finder := func(isMain bool, info r.LibNameInfo) ([]rune, error) {
		if isMain {
			return []rune(mainSrc), nil
		}
		if info.LibType == r.LIB_TYPE_STD {
			return []rune{}, nil
		}
		if src, ok := mods[info.OriginalName]; ok {
			return []rune(src), nil
		}
		return nil, fmt.Errorf("no such module")
	}
	parser := syntax.NewParser([]rune(mainSrc), zh.NewParserZH())
	program, perr := parser.Parse()
	if perr != nil {
		return nil, perr, nil
	}
	vm := r.InitVM(exec.GlobalValues)
	vm.SetModuleCodeFinder(finder)
	vm.LoadExternalLibs([]*r.Library{testLibrary()})
	res, err = exec.EvalMainModule(vm, program, r.ElementMap{})
	return
}

// testLibrary: a registered library 《@算》 with two functions.
func testLibrary() *r.Library {
	lib := r.NewLibrary("@算")
	lib.RegisterFunction("加倍", value.NewFunction(func(receiver r.Element, params []r.Element) (r.Element, error) {
		if n, ok := params[0].(*value.Number); ok && len(params) == 1 {
			return value.NewNumber(n.GetValue() * 2), nil
		}
		return nil, fmt.Errorf("加倍: one number expected")
	}))
	lib.RegisterFunction("取反", value.NewFunction(func(receiver r.Element, params []r.Element) (r.Element, error) {
		if n, ok := params[0].(*value.Number); ok && len(params) == 1 {
			return value.NewNumber(-n.GetValue()), nil
		}
		return nil, fmt.Errorf("取反: one number expected")
	}))
	return lib
}

func modName(i int) string { return fmt.Sprintf("模块%d", i) }

// ---- reference loader

type loader struct {
	n      int
	edges  [][]bool // edges[i][j]: module i imports module j (0 = main)
	state  []int    // 0 unloaded, 1 loading, 2 loaded
	trace  []float64
	cyclic bool
}

func (l *loader) load(i int) {
	if l.cyclic {
		return
	}
	l.state[i] = 1
	for j := 1; j <= l.n; j++ {
		if !l.edges[i][j] {
			continue
		}
		switch l.state[j] {
		case 1:
			l.cyclic = true
			return
		case 0:
			l.load(j)
			if l.cyclic {
				return
			}
		}
	}
	l.trace = append(l.trace, float64(i))
	l.state[i] = 2
}

// H_Graphs: every import graph on main + N modules (adjacency bits symbolic):
// each module body runs at most once, before its importer's own statements;
// a cycle reachable from main is reported as an error.
func H_Graphs() {
	N := 3
	if zv.Tier() == 1 {
		N = 4
	}
	graphs(N, false)
}

// H_LibGraphs: every import graph on main + 2 modules in which any subset of
// the three also imports the registered library 《@算》 (whole or one name) and
// calls it while loading.
func H_LibGraphs() {
	graphs(2, true)
}

func graphs(N int, withLib bool) {
	edges := make([][]bool, N+1)
	for i := 0; i <= N; i++ {
		edges[i] = make([]bool, N+1)
		for j := 1; j <= N; j++ {
			if N == 4 && i == 0 {
				edges[i][j] = j == 1 // 4 modules: main imports module 1 only
				continue
			}
			edges[i][j] = zv.Bool(fmt.Sprintf("e%d%d", i, j))
		}
	}
	// which modules also import the registered library 《@算》 (whole or one
	// name only) and use it while loading
	usesLib := make([]bool, N+1)
	selective := false
	if withLib {
		for i := 0; i <= N; i++ {
			usesLib[i] = zv.Bool(fmt.Sprintf("lib%d", i))
		}
		selective = zv.Bool("selective")
	}
	src := func(i int) string {
		s := ""
		if usesLib[i] {
			if selective && i > 0 {
				s += "导入《@算》之加倍\n"
			} else {
				s += "导入《@算》\n"
			}
		}
		for j := 1; j <= N; j++ {
			if edges[i][j] {
				s += "导入“" + modName(j) + "”\n"
			}
		}
		s += fmt.Sprintf("（显示：%d）\n", i)
		if usesLib[i] {
			s += fmt.Sprintf("令库值%d = （加倍：%d）\n", i, i+50)
		}
		if i > 0 {
			s += fmt.Sprintf("如何方法%d？\n    输出 %d\n", i, i*10)
		} else if usesLib[0] {
			s += "输出 库值0 - 1\n"
		} else {
			s += "输出 99\n"
		}
		return s
	}
	mods := map[string]string{}
	for i := 1; i <= N; i++ {
		mods[modName(i)] = src(i)
	}
	res, err, p := runModules(src(0), mods)
	l := &loader{n: N, edges: edges, state: make([]int, N+1)}
	l.load(0)
	zv.Assert(p == nil, "module loading: no panic")
	if l.cyclic {
		zv.Reach("cycle")
		zv.Assert(err != nil, "an import cycle is reported as an error")
		zv.Assert(isCircular(err), "the error is the circular-dependency error")
		// whatever ran before the cycle was detected ran at most once
		seen := map[float64]bool{}
		for _, t := range trace {
			zv.Assert(!seen[t], "no module body runs twice")
			seen[t] = true
		}
		return
	}
	zv.Reach("acyclic")
	zv.Assert(err == nil, "an acyclic import graph loads")
	same := len(trace) == len(l.trace)
	if same {
		for k := range trace {
			if trace[k] != l.trace[k] {
				same = false
			}
		}
	}
	zv.Assert(same, "each module body runs exactly once, before its importer's own statements")
	n, ok := res.(*value.Number)
	zv.Assert(ok && n.GetValue() == 99, "main program value")
	_ = withLib
}

func isCircular(err error) bool {
	for depth := 0; err != nil && depth < 8; depth++ {
		if re, ok := err.(*zerr.RuntimeError); ok {
			return re.Code == zerr.ErrModuleCircularDependency
		}
		// wrapped (module runtime error wrapper): compare rendered text
		msg := err.Error()
		probe := zerr.ModuleCircularDependency().Error()
		return contains(msg, probe)
	}
	return false
}

func contains(s, sub string) bool {
	for i := 0; i+len(sub) <= len(s); i++ {
		if s[i:i+len(sub)] == sub {
			return true
		}
	}
	return false
}

type fixedCase struct {
	name    string
	main    string
	mods    map[string]string
	wantErr bool
	want    float64
}

var libSrc = "如何加一？\n    输入X\n    输出 （内部：X） + 1\n如何内部？\n    输入Y\n    输出 Y * 2\n定义盒：\n    其值设为7\n令私有 = 5\n"

var shapeSrc = "如何求平方？\n    输入X\n    输出 X * X\n如何加边？\n    输入X\n    输出 X + 1\n定义方块：\n    其边设为0\n    其面积设为0\n    如何扩大？\n        输入K\n        输出（求平方：其边 * K）\n    如何周长？\n        输出（加边：其边 * 4）\n如何新建方块？\n    输入边\n    其边 = 边\n    其面积 = （求平方：边）\n"

var fixed = []fixedCase{
	{"import all: methods available", "导入“库”\n输出（加一：3）", map[string]string{"库": libSrc}, false, 7},
	{"imported method uses its module's other methods", "导入“库”之加一\n输出（加一：3）", map[string]string{"库": libSrc}, false, 7},
	{"selective import hides the rest", "导入“库”之加一\n输出（内部：3）", map[string]string{"库": libSrc}, true, 0},
	{"types are exported", "导入“库”\n令B = （新建盒）\n输出 B之值", map[string]string{"库": libSrc}, false, 7},
	{"plain variables are not exported", "导入“库”\n输出 私有", map[string]string{"库": libSrc}, true, 0},
	{"imported names are read-only", "导入“库”\n加一 = 3\n输出 1", map[string]string{"库": libSrc}, true, 0},
	{"missing module", "导入“无此模块”\n输出 1", map[string]string{"库": libSrc}, true, 0},
	{"missing library", "导入《@无此库》\n输出 1", map[string]string{}, true, 0},
	{"nested directory name", "导入“目录-子-库”\n输出（加一：1）", map[string]string{"目录-子-库": libSrc}, false, 3},
	{"diamond: shared module", "导入“左”\n导入“右”\n输出（左法）+（右法）", map[string]string{"左": "导入“库”\n如何左法？\n    输出（加一：1）\n", "右": "导入“库”\n如何右法？\n    输出（加一：2）\n", "库": "（显示：1）\n" + libSrc}, false, 8},
	{"library imported by main and by a module", "导入《@算》\n导入“用库”\n输出（加倍：2）+（用库法：3）", map[string]string{"用库": "导入《@算》\n如何用库法？\n    输入X\n    输出（取反：X）\n"}, false, 1},
	{"library imported by two sibling modules", "导入“左”\n导入“右”\n输出（左法）+（右法）", map[string]string{"左": "导入《@算》\n如何左法？\n    输出（加倍：1）\n", "右": "导入《@算》之取反\n如何右法？\n    输出（取反：5）\n"}, false, -3},
	{"selective library import hides the rest", "导入《@算》之加倍\n输出（取反：4）", map[string]string{}, true, 0},
	{"constructor of a selectively imported type uses its module's methods", "导入“图形”之方块\n令B = （新建方块：4）\n输出 B之面积", map[string]string{"图形": shapeSrc}, false, 16},
	{"method of a selectively imported type uses its module's methods", "导入“图形”之方块\n令B = （新建方块：4）\n输出 以B（扩大：2）", map[string]string{"图形": shapeSrc}, false, 64},
	{"second method of a selectively imported type uses its module's methods", "导入“图形”之方块\n令B = （新建方块：3）\n输出 以B（周长）", map[string]string{"图形": shapeSrc}, false, 13},
	{"imported constructor is not confused by a same-named method of the importer", "导入“图形”之方块\n如何求平方？\n    输入X\n    输出 -1\n令B = （新建方块：4）\n输出 B之面积 + （求平方：2）", map[string]string{"图形": shapeSrc}, false, 15},
	{"imported method is not confused by a same-named method of the importer", "导入“库”之加一\n如何内部？\n    输入Y\n    输出 -100\n输出（加一：3）+（内部：1）", map[string]string{"库": libSrc}, false, -93},
	{"constructor of an imported type uses what its module imported", "导入“图形二”之圆\n令C = （新建圆：3）\n输出 C之面积", map[string]string{"图形二": "导入“库”之加一\n定义圆：\n    其面积设为0\n如何新建圆？\n    输入R\n    其面积 = （加一：R）\n", "库": libSrc}, false, 7},
	{"self import", "导入“甲”\n输出 1", map[string]string{"甲": "导入“甲”\n如何F？\n    输出 1\n"}, true, 0},
}

// H_Fixed: export / read-only / missing-module templates.
func H_Fixed() {
	c := fixed[zv.Choose(len(fixed))]
	res, err, p := runModules(c.main, c.mods)
	zv.Assert(p == nil, c.name+": no panic")
	if c.wantErr {
		zv.Assert(err != nil, c.name+": must be an error")
		return
	}
	zv.Assert(err == nil, c.name+": must run")
	n, ok := res.(*value.Number)
	zv.Assert(ok && n.GetValue() == c.want, c.name+": value")
	if c.name == "diamond: shared module" {
		zv.Assert(len(trace) == 1, "a module imported by two modules runs once")
	}
}

// W_Witness: vacuity guard.
func W_Witness() {
	b := zv.Bool("b")
	main := "输出 1"
	if b {
		main = "导入“库”\n输出（加一：1）"
	}
	res, _, _ := runModules(main, map[string]string{"库": libSrc})
	n, _ := res.(*value.Number)
	zv.Assert(n != nil && n.GetValue() == 1, "witness")
}
