package c01

import (
	r "github.com/DemoHn/Zn/pkg/runtime"
	"github.com/DemoHn/Zn/pkg/value"
	"zsym/zv"
)

// precedence-climbing reference evaluator written from the manual's table:
//   * / | %  >  + -  >  comparisons  >  且  >  或 ; equal levels fold left;
//   且/或 evaluate the right operand only when the left one does not decide.

type tok struct {
	isOp bool
	op   int
	val  operand
	grp  []tok // a { } group
}

func level(op int) int {
	switch op {
	case opMul, opDiv, opIntDiv, opMod:
		return 5
	case opAdd, opSub:
		return 4
	case opEq, opNe, opGt, opLt, opGe, opLe:
		return 3
	case opAnd:
		return 2
	}
	return 1
}

func asOperand(rs result) operand {
	if rs.isBool {
		return operand{kind: kBool, b: rs.b}
	}
	return operand{kind: kNum, num: rs.num}
}

type evalState struct {
	toks []tok
	pos  int
}

func (s *evalState) primary() result {
	t := s.toks[s.pos]
	s.pos++
	if t.grp != nil {
		sub := &evalState{toks: t.grp}
		return sub.expr(1)
	}
	switch t.val.kind {
	case kBool:
		return boolR(t.val.b)
	case kNum:
		return numR(t.val.num)
	}
	return result{isErr: false, num: 0} // other kinds are not used in templates
}

// skip parses (without evaluating) an operand expression of at least minLevel.
func (s *evalState) skip(minLevel int) {
	s.pos++
	for s.pos < len(s.toks) && level(s.toks[s.pos].op) >= minLevel {
		lv := level(s.toks[s.pos].op)
		s.pos++
		s.skip(lv + 1)
	}
}

func (s *evalState) expr(minLevel int) result {
	left := s.primary()
	for s.pos < len(s.toks) && level(s.toks[s.pos].op) >= minLevel {
		op := s.toks[s.pos].op
		lv := level(op)
		s.pos++
		if left.isErr {
			s.skip(lv + 1)
			continue
		}
		// short circuit
		if op == opAnd || op == opOr {
			if !left.isBool {
				s.skip(lv + 1)
				left = errR()
				continue
			}
			if (op == opAnd && !left.b) || (op == opOr && left.b) {
				s.skip(lv + 1)
				continue
			}
		}
		right := s.expr(lv + 1)
		if right.isErr {
			left = errR()
			continue
		}
		left = specBinary(op, asOperand(left), asOperand(right))
	}
	return left
}

func evalRef(toks []tok) result {
	s := &evalState{toks: toks}
	return s.expr(1)
}

func pureIsArith(c rune) bool {
	return c == '+' || c == '-' || c == '*' || c == '/' || c == '|' || c == '%'
}

func arithOf(c rune) int {
	switch c {
	case '+':
		return opAdd
	case '-':
		return opSub
	case '*':
		return opMul
	case '/':
		return opDiv
	case '|':
		return opIntDiv
	}
	return opMod
}

var names = []string{"A", "B", "C", "D", "E"}

// H_Precedence_Arith: A o1 B o2 C (o3 D) with symbolic operator glyphs and
// optional { } group around one adjacent pair; all doubles.
func H_Precedence_Arith() {
	n := 3
	if zv.Tier() == 1 {
		n = 3 + zv.Choose(2)
	}
	group := zv.Choose(n) // 0: no group; g>=1: group around operands g-1,g
	vals := make([]operand, n)
	in := r.ElementMap{}
	for k := 0; k < n; k++ {
		f := zv.Float64(names[k])
		vals[k] = operand{kind: kNum, num: f}
		in[names[k]] = value.NewNumber(f)
	}
	ops := make([]rune, n-1)
	for k := range ops {
		ops[k] = zv.Rune("op")
		zv.Assume(pureIsArith(ops[k]))
	}
	// render + token list
	src := []rune("输入")
	for k := 0; k < n; k++ {
		if k > 0 {
			src = append(src, '、')
		}
		src = append(src, []rune(names[k])...)
	}
	src = append(src, []rune("\n输出 ")...)
	var toks []tok
	for k := 0; k < n; k++ {
		if k > 0 {
			if !(group > 0 && k == group) {
				toks = append(toks, tok{isOp: true, op: arithOf(ops[k-1])})
			}
			src = append(src, ' ', ops[k-1], ' ')
		}
		if group > 0 && k == group-1 {
			src = append(src, '{')
		}
		src = append(src, []rune(names[k])...)
		if group > 0 && k == group {
			src = append(src, '}')
			g := []tok{{val: vals[k-1]}, {isOp: true, op: arithOf(ops[k-1])}, {val: vals[k]}}
			toks[len(toks)-1] = tok{grp: g}
		} else {
			toks = append(toks, tok{val: vals[k]})
		}
	}
	res, err, p := run(src, in)
	checkResult(res, err, p, evalRef(toks), "H2 arith")
}

var cmpSpell = []opSpelling{
	{"==", opEq}, {"/=", opNe}, {">", opGt}, {"<", opLt}, {">=", opGe}, {"<=", opLe},
	{"等于", opEq}, {"不等于", opNe}, {"大于", opGt}, {"小于", opLt}, {"不小于", opGe}, {"不大于", opLe},
	{"为", opEq}, {"不为", opNe},
}

// H_Precedence_Mixed: A o1 B cmp C o2 D ‹且|或› P ‹且|或› E > 0 : all five levels.
func H_Precedence_Mixed() {
	ncmp := 6
	if zv.Tier() == 1 {
		ncmp = len(cmpSpell)
	}
	cs := cmpSpell[zv.Choose(ncmp)]
	in := r.ElementMap{}
	vals := make([]operand, 5)
	for k := 0; k < 5; k++ {
		f := zv.Float64(names[k])
		vals[k] = operand{kind: kNum, num: f}
		in[names[k]] = value.NewNumber(f)
	}
	pb := zv.Bool("P")
	in["P"] = value.NewBool(pb)
	o1, o2 := zv.Rune("op"), zv.Rune("op")
	zv.Assume(pureIsArith(o1) && pureIsArith(o2))
	l1, l2 := zv.Rune("lg"), zv.Rune("lg")
	zv.Assume((l1 == '且' || l1 == '或') && (l2 == '且' || l2 == '或'))
	if zv.Tier() == 0 {
		zv.Assume(l2 == '或' && o2 != '%' && o2 != '|')
	}
	if cs.op == opEq || cs.op == opNe {
		for k := 0; k < 4; k++ {
			zv.Assume(vals[k].num == vals[k].num)
		}
	}
	lop := func(c rune) int {
		if c == '且' {
			return opAnd
		}
		return opOr
	}
	src := []rune("输入A、B、C、D、E、P\n输出 A ")
	src = append(src, o1)
	src = append(src, []rune(" B "+cs.text+" C ")...)
	src = append(src, o2)
	src = append(src, []rune(" D ")...)
	src = append(src, l1)
	src = append(src, []rune(" P ")...)
	src = append(src, l2)
	src = append(src, []rune(" E > 0")...)
	toks := []tok{{val: vals[0]}, {isOp: true, op: arithOf(o1)}, {val: vals[1]}, {isOp: true, op: cs.op},
		{val: vals[2]}, {isOp: true, op: arithOf(o2)}, {val: vals[3]}, {isOp: true, op: lop(l1)},
		{val: operand{kind: kBool, b: pb}}, {isOp: true, op: lop(l2)}, {val: vals[4]}, {isOp: true, op: opGt}, {val: operand{kind: kNum, num: 0}}}
	res, err, p := run(src, in)
	checkResult(res, err, p, evalRef(toks), "H2 mixed "+cs.text)
}

// H_ShortCircuit: the right operand faults when evaluated (division by the
// input Z, an undefined name): it must not be evaluated when the left decides.
func H_ShortCircuit() {
	pb := zv.Bool("P")
	z := zv.Float64("Z")
	l := zv.Rune("lg")
	zv.Assume(l == '且' || l == '或')
	variant := zv.Choose(2)
	src := []rune("输入P、Z\n输出 P ")
	src = append(src, l)
	var rhsFaults bool
	var rhsVal bool
	if variant == 0 {
		src = append(src, []rune(" {1 / Z > 0}")...)
		rhsFaults = z == 0
		rhsVal = 1/z > 0
	} else {
		src = append(src, []rune(" 未有此名 > 0")...)
		rhsFaults = true
	}
	res, err, p := run(src, r.ElementMap{"P": value.NewBool(pb), "Z": value.NewNumber(z)})
	var want result
	switch {
	case l == '且' && !pb:
		want = boolR(false)
	case l == '或' && pb:
		want = boolR(true)
	case rhsFaults:
		want = errR()
	default:
		want = boolR(rhsVal)
	}
	checkResult(res, err, p, want, "H3 short-circuit")
}
