// Package c01: expression evaluation (property C01).
package c01

import (
	"github.com/DemoHn/Zn/pkg/exec"
	r "github.com/DemoHn/Zn/pkg/runtime"
	"github.com/DemoHn/Zn/pkg/value"
	"zsym/zv"
)

func run(src string, in r.ElementMap) (res r.Element, err error, panicked interface{}) {
	defer func() {
		if p := recover(); p != nil {
			panicked = p
		}
	}()
	res, err = exec.NewInterpreter("verif").LoadScript([]rune(src)).Execute(in)
	return
}

// H_Smoke: 输入A、B ; 输出 A + B * 3 with symbolic doubles
func H_Smoke() {
	a := zv.Float64("a")
	b := zv.Float64("b")
	res, err, p := run("输入A、B\n输出 A + B * 3", r.ElementMap{"A": value.NewNumber(a), "B": value.NewNumber(b)})
	zv.Assert(p == nil, "no panic")
	zv.Assert(err == nil, "no error")
	n, ok := res.(*value.Number)
	zv.Assert(ok, "number result")
	zv.Assert(zv.SameFloat(n.GetValue(), a+b*3), "value = a+b*3")
	zv.Reach("value")
}
