// Package c01: expression evaluation (property C01).
package c01

import (
	"math"

	"github.com/DemoHn/Zn/pkg/exec"
	r "github.com/DemoHn/Zn/pkg/runtime"
	"github.com/DemoHn/Zn/pkg/value"
	"zsym/zv"
)

func run(src []rune, in r.ElementMap) (res r.Element, err error, panicked interface{}) {
	defer func() {
		if p := recover(); p != nil {
			panicked = p
		}
	}()
	res, err = exec.NewInterpreter("verif").LoadScript(src).Execute(in)
	return
}

// ---- operand values

const (
	kNum = iota
	kBool
	kText
	kNull
)

type operand struct {
	kind int
	num  float64
	b    bool
	text string
}

var textPool = []string{"x", "y", "X", "δ", "Δ", "xy", "xY", ""}

func symOperand(name string, kinds int) (operand, r.Element) {
	k := zv.Choose(kinds)
	switch k {
	case kNum:
		f := zv.Float64(name)
		return operand{kind: kNum, num: f}, value.NewNumber(f)
	case kBool:
		b := zv.Bool(name)
		return operand{kind: kBool, b: b}, value.NewBool(b)
	case kText:
		// texts that differ in nothing, in a letter, in letter case only
		// (Latin, Greek), in length; and the empty text
		s := textPool[zv.Choose(len(textPool))]
		return operand{kind: kText, text: s}, value.NewString(s)
	}
	return operand{kind: kNull}, value.NewNull()
}

// ---- the specification of one binary operator (manual chapters 3 and 5)

type result struct {
	isErr  bool
	isBool bool
	num    float64
	b      bool
}

const (
	opAdd = iota
	opSub
	opMul
	opDiv
	opIntDiv
	opMod
	opEq
	opNe
	opGt
	opLt
	opGe
	opLe
	opAnd
	opOr
)

func errR() result              { return result{isErr: true} }
func numR(f float64) result     { return result{num: f} }
func boolR(b bool) result       { return result{isBool: true, b: b} }
func fromBool(o operand) result { return boolR(o.b) }

func structEq(a, b operand) bool {
	if a.kind != b.kind {
		return false
	}
	switch a.kind {
	case kNum:
		return a.num == b.num
	case kBool:
		return a.b == b.b
	case kText:
		return a.text == b.text
	}
	return true
}

func specBinary(op int, a, b operand) result {
	switch op {
	case opAdd, opSub, opMul, opDiv, opIntDiv, opMod:
		if a.kind != kNum || b.kind != kNum {
			return errR()
		}
		switch op {
		case opAdd:
			return numR(a.num + b.num)
		case opSub:
			return numR(a.num - b.num)
		case opMul:
			return numR(a.num * b.num)
		}
		if b.num == 0 {
			return errR()
		}
		switch op {
		case opDiv:
			return numR(a.num / b.num)
		case opIntDiv:
			return numR(math.Floor(a.num / b.num))
		}
		return numR(a.num - math.Floor(a.num/b.num)*b.num)
	case opEq:
		return boolR(structEq(a, b))
	case opNe:
		return boolR(!structEq(a, b))
	case opGt, opLt, opGe, opLe:
		if a.kind != kNum || b.kind != kNum {
			return errR()
		}
		switch op {
		case opGt:
			return boolR(a.num > b.num)
		case opLt:
			return boolR(a.num < b.num)
		case opGe:
			return boolR(a.num >= b.num)
		}
		return boolR(a.num <= b.num)
	}
	// 且 / 或 (both operands evaluated here: no side effects in H1)
	if a.kind != kBool {
		return errR()
	}
	if op == opAnd && !a.b {
		return boolR(false)
	}
	if op == opOr && a.b {
		return boolR(true)
	}
	if b.kind != kBool {
		return errR()
	}
	return boolR(b.b)
}

type opSpelling struct {
	text string
	op   int
}

var spellings = []opSpelling{
	{"+", opAdd}, {"-", opSub}, {"*", opMul}, {"/", opDiv}, {"|", opIntDiv}, {"%", opMod},
	{"==", opEq}, {"/=", opNe}, {">", opGt}, {"<", opLt}, {">=", opGe}, {"<=", opLe},
	{"等于", opEq}, {"不等于", opNe}, {"大于", opGt}, {"小于", opLt}, {"不小于", opGe}, {"不大于", opLe},
	{"为", opEq}, {"不为", opNe}, {"且", opAnd}, {"或", opOr},
}

func checkResult(res r.Element, err error, p interface{}, want result, tag string) {
	zv.Assert(p == nil, tag+": no Go panic")
	if want.isErr {
		zv.Reach("error")
		zv.Assert(err != nil, tag+": an error, never a value")
		return
	}
	zv.Assert(err == nil, tag+": a value, not an error")
	if want.isBool {
		zv.Reach("bool")
		bv, ok := res.(*value.Bool)
		zv.Assert(ok, tag+": result is a boolean")
		zv.Assert(bv.GetValue() == want.b, tag+": boolean value")
		return
	}
	zv.Reach("number")
	nv, ok := res.(*value.Number)
	zv.Assert(ok, tag+": result is a number")
	zv.Assert(zv.SameFloat(nv.GetValue(), want.num), tag+": numeric value (IEEE-754, bit for bit)")
}

// H1_Operators: every operator spelling on every pair of operand kinds and
// all values (doubles unconstrained: NaN, infinities, signed zeros, subnormals).
func H_Operators() {
	sp := spellings[zv.Choose(len(spellings))]
	a, ea := symOperand("a", 4)
	b, eb := symOperand("b", 4)
	// NaN under structural equality is unspecified in the manual
	if (sp.op == opEq || sp.op == opNe) && a.kind == kNum && b.kind == kNum {
		zv.Assume(a.num == a.num && b.num == b.num)
	}
	// text % list is formatting (C14)
	zv.Assume(!(sp.op == opMod && a.kind == kText))
	src := []rune("输入A、B\n输出 A " + sp.text + " B")
	res, err, p := run(src, r.ElementMap{"A": ea, "B": eb})
	checkResult(res, err, p, specBinary(sp.op, a, b), "H1 "+sp.text)
}

// H_EqualityByValue: the equality family (== /= 等于 不等于 为 不为) is decided by the
// operands' values: comparing a value with itself (the same stored element on
// both sides, or the same variable written twice) gives what comparing it with
// an equal copy gives - for every double (NaN included), text, boolean, 空, and
// for lists / dictionaries holding such a value.
func H_EqualityByValue() {
	eqSpellings := []string{"==", "/=", "等于", "不等于", "为", "不为"}
	sp := eqSpellings[zv.Choose(len(eqSpellings))]
	mk := func() r.Element { return nil }
	switch zv.Choose(4) {
	case 0:
		f := zv.Float64("v")
		mk = func() r.Element { return value.NewNumber(f) }
	case 1:
		t := textPool[zv.Choose(len(textPool))]
		mk = func() r.Element { return value.NewString(t) }
	case 2:
		b := zv.Bool("v")
		mk = func() r.Element { return value.NewBool(b) }
	default:
		mk = func() r.Element { return value.NewNull() }
	}
	wrap := zv.Choose(3)
	build := func(leaf r.Element) r.Element {
		switch wrap {
		case 1:
			return value.NewArray([]r.Element{value.NewNumber(1), leaf})
		case 2:
			return value.NewHashMap([]value.KVPair{{Key: "甲", Value: value.NewNumber(1)}, {Key: "乙", Value: leaf}})
		}
		return leaf
	}
	// reference: two separately built, equal values
	resCopy, errCopy, pCopy := run([]rune("输入A、B\n输出 A "+sp+" B"), r.ElementMap{"A": build(mk()), "B": build(mk())})
	var res r.Element
	var err error
	var p interface{}
	switch zv.Choose(3) {
	case 0: // one element under both names
		e := build(mk())
		res, err, p = run([]rune("输入A、B\n输出 A "+sp+" B"), r.ElementMap{"A": e, "B": e})
	case 1: // the same variable on both sides
		res, err, p = run([]rune("输入A\n输出 A "+sp+" A"), r.ElementMap{"A": build(mk())})
	default: // containers sharing one leaf element
		leaf := mk()
		res, err, p = run([]rune("输入A、B\n输出 A "+sp+" B"), r.ElementMap{"A": build(leaf), "B": build(leaf)})
	}
	zv.Assert(p == nil && pCopy == nil, "equality by value: no Go panic")
	zv.Assert((err == nil) == (errCopy == nil), "equality by value: a value compared with itself fails exactly when compared with an equal copy")
	if err == nil && errCopy == nil {
		b1, ok1 := res.(*value.Bool)
		b2, ok2 := resCopy.(*value.Bool)
		zv.Assert(ok1 && ok2, "equality by value: boolean results")
		zv.Assert(b1.GetValue() == b2.GetValue(), "comparing a value with itself gives what comparing it with an equal copy gives ("+sp+")")
	}
	zv.Reach("compared")
}

// H_LiteralsStay: a number literal denotes the number it spells every time
// it is evaluated - also after an earlier evaluation of the same spelling has
// been changed in place (自增 / 自减 on the literal itself or on a parameter
// bound to it), later in the program, on a later loop pass, or in a later
// execution in the same process.
func H_LiteralsStay() {
	x := zv.Float64("x")
	zv.Assume((x >= 1 && x <= 1000000) || (x <= -1 && x >= -1000000)) // a change that is visible in the sums below
	lit := []string{"40", "2.5*10^3", "7"}[zv.Choose(3)]
	want := []float64{40, 2500, 7}[zv.Choose(1)]
	switch lit {
	case "2.5*10^3":
		want = 2500
	case "7":
		want = 7
	default:
		want = 40
	}
	var src string
	switch zv.Choose(4) {
	case 0:
		src = "输入X\n以 " + lit + "（自增：X）\n输出 " + lit + " + 0"
	case 1:
		src = "输入X\n如何改？\n    输入N\n    以N（自减：X）\n    输出 0\n（改：" + lit + "）\n输出 " + lit + " + 0"
	case 2:
		src = "输入X\n令S = 0\n以I遍历【1，2，3】：\n    令V = " + lit + "\n    S = S + " + lit + "\n    以 " + lit + "（自增：X）\n输出 S / 3"
	default:
		run([]rune("输入X\n以 "+lit+"（自增：X）\n输出 1"), r.ElementMap{"X": value.NewNumber(x)})
		src = "输入X\n输出 " + lit + " + 0"
	}
	res, err, p := run([]rune(src), r.ElementMap{"X": value.NewNumber(x)})
	zv.Assert(p == nil && err == nil, "literals: the program runs\n"+src)
	n, ok := res.(*value.Number)
	zv.Assert(ok && n.GetValue() == want, "a number literal yields the number it spells, whatever happened to an earlier evaluation of the same spelling\n"+src)
	zv.Reach("done")
}

// W_Operators_Witness: vacuity guard.
func W_Operators_Witness() {
	a := zv.Float64("a")
	b := zv.Float64("b")
	res, _, _ := run([]rune("输入A、B\n输出 A - B"), r.ElementMap{"A": value.NewNumber(a), "B": value.NewNumber(b)})
	nv := res.(*value.Number)
	zv.Assert(zv.SameFloat(nv.GetValue(), b-a), "witness")
}
