package zv

import (
	"sort"
	"strings"
	"time"
)

func splitLines(s string) []string {
	var out []string
	for _, l := range strings.Split(s, "\n") {
		l = strings.TrimSpace(l)
		if l != "" {
			out = append(out, l)
		}
	}
	return out
}

func timeAfter(sec int) <-chan time.Time { return time.After(time.Duration(sec) * time.Second) }

func sortedUnique(l []string) []string {
	m := map[string]bool{}
	for _, x := range l {
		m[x] = true
	}
	out := make([]string, 0, len(m))
	for x := range m {
		out = append(out, x)
	}
	sort.Strings(out)
	return out
}
