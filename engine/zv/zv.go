// Package zv is the harness API (the CBMC-idiom in Go): nondeterministic
// inputs, assumptions, assertions.  Under the symbolic engine every function
// here is intercepted; this native implementation replays a concrete
// assignment found by the solver (or runs conformance samples) against the
// natively compiled repository.
package zv

import (
	"encoding/json"
	"fmt"
	"math"
	"os"
	"runtime"
	"strconv"
	"sync"
)

type Replay struct {
	Harness string                 `json:"harness"`
	Label   string                 `json:"label"`
	Inputs  map[string]interface{} `json:"inputs"`
	Forks   []int                  `json:"forks"`
	Tier    int                    `json:"tier"`
	Repeat  int                    `json:"repeat,omitempty"`
	// expectations recorded by the engine (samples)
	Reached  []string            `json:"reached,omitempty"`
	Observed []string            `json:"observed,omitempty"`
	Outcome  string              `json:"outcome,omitempty"`
	Tables   map[string][]string `json:"tables,omitempty"`
}

// StringTable returns the constant keys of the map literals inside the named
// function of the repository (read from SSA by the engine; from the replay
// file natively).
func StringTable(fn string) []string {
	if st.rp != nil {
		return st.rp.Tables[fn]
	}
	return nil
}

// Tier: 0 quick, 1 thorough (harnesses choose their bounds from it).
func Tier() int {
	if st.rp != nil {
		return st.rp.Tier
	}
	return 0
}

type state struct {
	mu           sync.Mutex
	rp           *Replay
	forkPos      int
	used         map[string]int
	Failures     []string
	Reached      []string
	Observed     []string
	AssumeFailed bool
	Missing      []string
}

var st = &state{used: map[string]int{}}

// Load installs a replay assignment (native mode).
func Load(path string) error {
	data, err := os.ReadFile(path)
	if err != nil {
		return err
	}
	var rp Replay
	if err := json.Unmarshal(data, &rp); err != nil {
		return err
	}
	Reset(&rp)
	return nil
}

func Reset(rp *Replay) {
	st = &state{rp: rp, used: map[string]int{}}
}

func Failures() []string      { return st.Failures }
func ReachedTags() []string   { return st.Reached }
func Observations() []string  { return st.Observed }
func AssumeFailed() bool      { return st.AssumeFailed }
func MissingInputs() []string { return st.Missing }

func lookup(name string) (interface{}, bool) {
	st.mu.Lock()
	defer st.mu.Unlock()
	n := st.used[name]
	st.used[name]++
	key := name
	if n > 0 {
		key = name + "_" + strconv.Itoa(n)
	}
	if st.rp == nil {
		return nil, false
	}
	v, ok := st.rp.Inputs[key]
	if !ok {
		st.Missing = append(st.Missing, key)
	}
	return v, ok
}

func asInt(v interface{}) int64 {
	switch x := v.(type) {
	case float64:
		return int64(x)
	case int64:
		return x
	case int:
		return int64(x)
	case string:
		u, _ := strconv.ParseInt(x, 0, 64)
		return u
	}
	return 0
}

func Float64(name string) float64 {
	v, ok := lookup(name)
	if !ok {
		return 0
	}
	switch x := v.(type) {
	case string:
		u, _ := strconv.ParseUint(x, 0, 64)
		return math.Float64frombits(u)
	case float64:
		return x
	}
	return 0
}

func Int(name string, lo, hi int) int {
	v, ok := lookup(name)
	x := lo
	if ok {
		x = int(asInt(v))
	}
	Assume(lo <= x && x <= hi)
	return x
}

func Int64(name string) int64 { v, _ := lookup(name); return asInt(v) }
func Rune(name string) rune   { v, _ := lookup(name); return rune(asInt(v)) }
func Byte(name string) byte   { v, _ := lookup(name); return byte(asInt(v)) }
func Bool(name string) bool {
	v, ok := lookup(name)
	if !ok {
		return false
	}
	b, _ := v.(bool)
	return b
}

// Choose is a pure n-way fork (enumerated by the engine, not by the solver).
func Choose(n int) int {
	if st.rp == nil || st.forkPos >= len(st.rp.Forks) {
		if n > 1 {
			st.forkPos++
		}
		return 0
	}
	if n <= 1 {
		return 0
	}
	d := st.rp.Forks[st.forkPos]
	st.forkPos++
	return d
}

func Assume(cond bool) {
	if !cond {
		st.AssumeFailed = true
		runtime.Goexit()
	}
}

func Assert(cond bool, label string) {
	if !cond {
		st.Failures = append(st.Failures, label)
		runtime.Goexit()
	}
}

func Reach(tag string) { st.Reached = append(st.Reached, tag) }

func Observe(tag string, vals ...interface{}) {
	st.Observed = append(st.Observed, tag+": "+fmt.Sprint(vals...))
}

// SameFloat: identical doubles (one NaN; +0 and -0 differ).
func SameFloat(a, b float64) bool {
	if a != a && b != b {
		return true
	}
	return math.Float64bits(a) == math.Float64bits(b)
}

// Symbolic reports whether the harness runs under the symbolic engine.
func Symbolic() bool { return false }

func Stop() { runtime.Goexit() }

func Note(s string) {}

// SetMapOrder asks the engine to iterate Go maps in insertion order (0), in
// every order (1, a fork per step) or reversed (2).  Native: no effect.
func SetMapOrder(mode int) {}

// DeferGoroutines: under the engine, `go` statements executed from now on do
// not run their body at once; RunPendingGoroutine runs the oldest waiting one.
// Native: no effect (the harness gates its own stubs instead).
func DeferGoroutines(on bool) {}

// RunPendingGoroutine: engine only (native: false).
func RunPendingGoroutine() bool { return false }

// RunGoroutine runs fn to completion in its own goroutine and reports how it
// ended (native replays).
func RunGoroutine(fn func()) (panicked interface{}, done bool) {
	ch := make(chan struct{})
	go func() {
		defer close(ch)
		defer func() {
			if r := recover(); r != nil {
				panicked = r
			}
		}()
		fn()
		done = true
	}()
	<-ch
	return
}

type nativeResult struct {
	File         string   `json:"file"`
	Failures     []string `json:"failures"`
	Reached      []string `json:"reached"`
	Observed     []string `json:"observed"`
	AssumeFailed bool     `json:"assume_failed"`
	Panicked     string   `json:"panicked"`
	TimedOut     bool     `json:"timed_out"`
	Missing      []string `json:"missing"`
}

// ReplayMain runs every replay file listed in $ZV_REPLAY_LIST through the
// natively compiled harness and prints one ZVRESULT line per file.
func ReplayMain(table map[string]func()) {
	list, err := os.ReadFile(os.Getenv("ZV_REPLAY_LIST"))
	if err != nil {
		fmt.Println("ZVERROR", err)
		return
	}
	for _, f := range splitLines(string(list)) {
		res := nativeResult{File: f}
		if err := Load(f); err != nil {
			res.Panicked = "load: " + err.Error()
			emit(res)
			continue
		}
		fn := table[st.rp.Harness]
		if fn == nil {
			res.Panicked = "unknown harness " + st.rp.Harness
			emit(res)
			continue
		}
		// a violation that depends on an engine-chosen schedule (Go map
		// order) is confirmed by brute repetition: Go randomises the order
		// on every range statement
		repeats := 1
		if st.rp.Label != "" && st.rp.Repeat > 1 {
			repeats = st.rp.Repeat
		}
		var my *state
		var panicked interface{}
		timedOut := false
		for rep := 0; rep < repeats; rep++ {
			Reset(st.rp)
			my = st
			panicked = nil
			done := make(chan struct{})
			go func() {
				defer close(done)
				defer func() {
					if r := recover(); r != nil {
						panicked = r
					}
				}()
				fn()
			}()
			select {
			case <-done:
			case <-timeAfter(20):
				timedOut = true
			}
			if timedOut || panicked != nil || len(my.Failures) > 0 {
				break
			}
		}
		res.TimedOut = timedOut
		if false {
			done := make(chan struct{})
			go func() {
				defer close(done)
				fn()
			}()
			select {
			case <-done:
			case <-timeAfter(20):
				res.TimedOut = true
			}
		}
		if panicked != nil {
			res.Panicked = fmt.Sprint(panicked)
			if len(res.Panicked) > 300 {
				res.Panicked = res.Panicked[:300]
			}
		}
		my.mu.Lock()
		res.Failures = append([]string{}, my.Failures...)
		res.Reached = sortedUnique(my.Reached)
		res.Observed = append([]string{}, my.Observed...)
		res.AssumeFailed = my.AssumeFailed
		res.Missing = my.Missing
		my.mu.Unlock()
		emit(res)
	}
}

func emit(r nativeResult) {
	data, _ := json.Marshal(r)
	fmt.Println("ZVRESULT " + string(data))
}

// NoSummaries makes the engine explore pure functions path by path instead
// of folding them into one term (used where the function itself is the subject).
func NoSummaries() {}

// SelectOracle installs fn as the oracle of every `select` statement executed
// by the engine: fn(n) returns the index of the ready case and the received
// value.  Natively: no effect (real channels are used).
func SelectOracle(fn func(n int) (int, interface{})) {}
