package main

// Property-level driver: explore the harnesses of one property, replay
// counterexamples and sample paths against the natively built repository,
// apply the known-findings list, write the evidence file, set the exit code.

import (
	"bufio"
	"bytes"
	"encoding/json"
	"fmt"
	"os"
	"os/exec"
	"path/filepath"
	"sort"
	"strconv"
	"strings"
	"time"

	"zsym/interp"
)

type checkSpec struct {
	Pkg         string            `json:"pkg"`
	Overlay     map[string]string `json:"overlay"` // repo-relative virtual file -> file under /verif/engine
	Title       string            `json:"title"`
	Bounds      map[string]string `json:"bounds"` // tier -> text
	Outside     []string          `json:"outside"`
	Assumptions []string          `json:"assumptions"`
	Budget      map[string]int    `json:"budget_s"` // tier -> seconds of exploration budget per harness
	MaxSteps    int64             `json:"max_steps"`
	TimeoutMs   map[string]int    `json:"timeout_ms"`
	Samples     int               `json:"replay_samples"`
	// OverlayGen: virtual files generated at check time from the current tree
	// (copy of a repository file under another name, optionally with textual
	// replacements); used for platform shims and for stubbing process creation.
	OverlayGen []overlayGen `json:"overlay_gen"`
}

type overlayGen struct {
	Src     string      `json:"src"`     // repo-relative source file
	Dst     string      `json:"dst"`     // repo-relative virtual file
	Replace [][2]string `json:"replace"` // textual replacements (each must match)
}

type knownFinding struct {
	Property string                 `json:"property"`
	Status   string                 `json:"status"` // "known" or "fixed"
	Harness  string                 `json:"harness"`
	Label    string                 `json:"label"`
	Inputs   map[string]interface{} `json:"inputs,omitempty"`
	Forks    []int                  `json:"forks,omitempty"`
	What     string                 `json:"what"`
	Commit   string                 `json:"commit,omitempty"`
}

type replayFile struct {
	Harness      string                 `json:"harness"`
	Label        string                 `json:"label"`
	Inputs       map[string]interface{} `json:"inputs"`
	Forks        []int                  `json:"forks"`
	Tier         int                    `json:"tier"`
	Reached      []string               `json:"reached,omitempty"`
	Observed     []string               `json:"observed,omitempty"`
	Outcome      string                 `json:"outcome,omitempty"`
	Detail       string                 `json:"detail,omitempty"`
	Property     string                 `json:"property,omitempty"`
	Tables       map[string][]string    `json:"tables,omitempty"`
	Repeat       int                    `json:"repeat,omitempty"`
	SkipObserved bool                   `json:"skip_observed,omitempty"`
	Schedule     []int                  `json:"schedule,omitempty"`
}

type nativeResult struct {
	File         string   `json:"file"`
	Failures     []string `json:"failures"`
	Reached      []string `json:"reached"`
	Observed     []string `json:"observed"`
	AssumeFailed bool     `json:"assume_failed"`
	Panicked     string   `json:"panicked"`
	TimedOut     bool     `json:"timed_out"`
	Missing      []string `json:"missing"`
}

const verifRoot = "/verif"

func loadSpecs() map[string]*checkSpec {
	data, err := os.ReadFile(filepath.Join(verifRoot, "checks.json"))
	if err != nil {
		fatal("checks.json: %v", err)
	}
	specs := map[string]*checkSpec{}
	if err := json.Unmarshal(data, &specs); err != nil {
		fatal("checks.json: %v", err)
	}
	return specs
}

func fatal(f string, a ...interface{}) {
	fmt.Fprintf(os.Stderr, "zsym: "+f+"\n", a...)
	os.Exit(2)
}

func forksToInts(f []int32) []int {
	out := make([]int, len(f))
	for k, v := range f {
		out[k] = int(v)
	}
	return out
}

func runCheck(id, tier string, seed int64, only string) int {
	t0 := time.Now()
	specs := loadSpecs()
	spec := specs[id]
	if spec == nil {
		fatal("no check spec for %s", id)
	}
	tierN := 0
	if tier == "thorough" {
		tierN = 1
	}
	ev := map[string]interface{}{}
	incomplete := []string{}

	// overlay (in-package harness files)
	var overlay map[string][]byte
	overlayJSON := map[string]string{}
	if len(spec.Overlay) > 0 {
		overlay = map[string][]byte{}
		for virt, real := range spec.Overlay {
			data, err := os.ReadFile(filepath.Join(verifRoot, "engine", real))
			if err != nil {
				fatal("overlay %s: %v", real, err)
			}
			overlay[filepath.Join("/repo", virt)] = data
			overlayJSON[filepath.Join("/repo", virt)] = filepath.Join(verifRoot, "engine", real)
		}
	}
	genDir := ""
	if len(spec.OverlayGen) > 0 {
		if overlay == nil {
			overlay = map[string][]byte{}
		}
		genDir, _ = os.MkdirTemp("", "zsym-gen-")
		defer os.RemoveAll(genDir)
		for k, g := range spec.OverlayGen {
			data, err := os.ReadFile(filepath.Join("/repo", g.Src))
			if err != nil {
				fatal("overlay_gen %s: %v", g.Src, err)
			}
			text := string(data)
			for _, r := range g.Replace {
				// "*pattern": every occurrence, none required
				if strings.HasPrefix(r[0], "*") {
					text = strings.ReplaceAll(text, r[0][1:], r[1])
					continue
				}
				if !strings.Contains(text, r[0]) {
					incomplete = append(incomplete, "overlay_gen: pattern not found in "+g.Src+": "+r[0])
				}
				text = strings.Replace(text, r[0], r[1], 1)
			}
			overlay[filepath.Join("/repo", g.Dst)] = []byte(text)
			real := filepath.Join(genDir, fmt.Sprintf("gen%d.go", k))
			os.WriteFile(real, []byte(text), 0644)
			overlayJSON[filepath.Join("/repo", g.Dst)] = real
		}
	}
	w, err := interp.Load(filepath.Join(verifRoot, "engine"), overlay, spec.Pkg)
	if err != nil {
		// the harness no longer type-checks against the tree (refactor) or
		// the tree itself does not compile: never a VIOLATION.
		fmt.Fprintf(os.Stderr, "zsym: load failed: %v\n", err)
		incomplete = append(incomplete, "load failed: "+firstLine(err.Error()))
		writeEvidence(id, tier, seed, t0, nil, nil, incomplete, spec, nil, 0, nil, nil)
		return 0
	}
	w.Tier = tierN
	loadS := time.Since(t0).Seconds()

	names := w.HarnessFuncs("H_")
	if tierN == 1 {
		names = append(names, w.HarnessFuncs("T_")...)
	}
	witnesses := w.HarnessFuncs("W_")
	if only != "" {
		names = strings.Split(only, ",")
		witnesses = nil
	}
	budget := 240
	if tier == "thorough" {
		budget = 1500
	}
	if b, ok := spec.Budget[tier]; ok {
		budget = b
	}
	timeoutMs := 10000
	if tm, ok := spec.TimeoutMs[tier]; ok {
		timeoutMs = tm
	}
	maxSteps := spec.MaxSteps
	if maxSteps == 0 {
		maxSteps = 2_000_000
	}

	var reports []*interp.Report
	for _, n := range names {
		rep, err := w.Explore(n, interp.Options{Workers: 16, TimeoutMs: timeoutMs, MaxSteps: maxSteps,
			Deadline: time.Now().Add(time.Duration(budget) * time.Second), KeepSample: 8})
		if err != nil {
			incomplete = append(incomplete, err.Error())
			continue
		}
		fmt.Fprint(os.Stderr, rep.Summary())
		reports = append(reports, rep)
	}
	// vacuity witnesses: must produce a violation
	witnessOK := 0
	for _, n := range witnesses {
		rep, err := w.Explore(n, interp.Options{Workers: 16, TimeoutMs: timeoutMs, MaxSteps: maxSteps,
			Deadline: time.Now().Add(60 * time.Second), StopOnViolation: true})
		if err != nil {
			incomplete = append(incomplete, err.Error())
			continue
		}
		if len(rep.Violations) == 0 {
			incomplete = append(incomplete, "vacuity witness "+n+" was not violated (harness may be vacuous)")
		} else {
			witnessOK++
		}
	}

	// ---- replay files
	rdir := filepath.Join(verifRoot, "replays", id)
	if alt := os.Getenv("ZSYM_OUT_DIR"); alt != "" {
		rdir = filepath.Join(alt, "replays", id)
	}
	os.RemoveAll(rdir)
	os.MkdirAll(rdir, 0755)
	type pending struct {
		rf       replayFile
		path     string
		viol     bool
		fallback bool // path the engine could not follow: the native run decides
	}
	var pend []pending
	nSamples := spec.Samples
	if nSamples == 0 {
		nSamples = 12
	}
	for _, rep := range reports {
		for k, v := range rep.Violations {
			rf := replayFile{Harness: rep.Harness, Label: v.Label, Inputs: v.Inputs, Forks: forksToInts(v.Forks), Tier: tierN, Detail: v.Detail, Property: id, Tables: v.Tables, Schedule: forksToInts(v.Schedule)}
			if len(v.Schedule) > 0 {
				rf.Repeat = 300
			}
			p := filepath.Join(rdir, fmt.Sprintf("%s-v%d.json", rep.Harness, k))
			pend = append(pend, pending{rf, p, true, false})
		}
		// paths the engine could not follow (unsupported foreign call, engine
		// fault): run them natively with the inputs of the explored prefix
		for k, s := range rep.Fallback {
			rf := replayFile{Harness: rep.Harness, Inputs: s.Inputs, Tier: tierN, Outcome: s.Outcome, Property: id, Tables: s.Tables, Detail: "native fallback: " + firstLine(s.Msg), SkipObserved: true}
			rf.Forks = forksFromTraceSample(s)
			if s.Scheduled {
				rf.Repeat = 50
			}
			p := filepath.Join(rdir, fmt.Sprintf("%s-f%d.json", rep.Harness, k))
			pend = append(pend, pending{rf, p, false, true})
		}
		// sample paths for conformance (seeded rotation)
		cnt := 0
		ns := len(rep.Samples)
		for k := 0; k < ns && cnt < nSamples; k++ {
			s := rep.Samples[(k+int(seed%int64(ns+1)))%ns]
			if s.Outcome != "ok" && s.Outcome != "done" {
				continue
			}
			if s.Scheduled {
				continue // depends on the map iteration order the engine chose: the native run would pick its own
			}
			rf := replayFile{Harness: rep.Harness, Inputs: s.Inputs, Tier: tierN, Reached: s.Reached, Observed: s.Observed, Outcome: s.Outcome, Property: id, Tables: s.Tables}
			if s.ObservedSymbolic {
				rf.Observed = nil
				rf.SkipObserved = true
			}
			rf.Forks = forksFromTraceSample(s)
			p := filepath.Join(rdir, fmt.Sprintf("%s-s%d.json", rep.Harness, cnt))
			pend = append(pend, pending{rf, p, false, false})
			cnt++
		}
	}
	var files []string
	for _, p := range pend {
		data, _ := json.MarshalIndent(p.rf, "", " ")
		os.WriteFile(p.path, data, 0644)
		files = append(files, p.path)
	}

	// ---- native replay
	natives := map[string]*nativeResult{}
	var replayErr string
	if len(files) > 0 {
		allNames := append(append([]string{}, w.HarnessFuncs("H_")...), w.HarnessFuncs("T_")...)
		natives, replayErr = nativeReplay(spec.Pkg, allNames, files, overlayJSON)
		if replayErr != "" {
			incomplete = append(incomplete, "native replay failed: "+firstLine(replayErr))
			fmt.Fprintln(os.Stderr, "zsym: native replay failed:", replayErr)
		}
	}

	known := loadKnown()
	exit := 0
	validated := 0
	fallbackOK := 0
	mismatches := []string{}
	spurious := []string{}
	knownHit := []string{}
	var violLines []string
	for pi := range pend {
		p := &pend[pi]
		nr := natives[p.path]
		if nr == nil {
			continue
		}
		if p.fallback {
			// the engine gave up on this path: the native run is the verdict
			switch {
			case nr.Panicked != "":
				p.rf.Label = "uncaught-panic"
			case nr.TimedOut:
				p.rf.Label = "budget"
			case len(nr.Failures) > 0:
				p.rf.Label = nr.Failures[0]
			default:
				fallbackOK++
				os.Remove(p.path)
				continue
			}
			data, _ := json.MarshalIndent(p.rf, "", " ")
			os.WriteFile(p.path, data, 0644)
			if kf := matchKnown(known, id, &p.rf); kf != nil {
				line := fmt.Sprintf("KNOWN-FINDING: property=%s %s [%s/%s]", id, kf.What, p.rf.Harness, p.rf.Label)
				if !contains(knownHit, line) {
					knownHit = append(knownHit, line)
				}
				continue
			}
			violLines = append(violLines, fmt.Sprintf("VIOLATION property=%s replay=%s", id, p.path))
			fmt.Fprintf(os.Stderr, "zsym: violation (native fallback for a path the engine could not follow) %s/%s inputs=%v forks=%v detail=%s\n", p.rf.Harness, p.rf.Label, p.rf.Inputs, p.rf.Forks, p.rf.Detail)
			exit = 1
			continue
		}
		if !p.viol {
			// conformance: native run must agree with the engine on this path
			if len(nr.Failures) == 0 && !nr.AssumeFailed && nr.Panicked == "" && !nr.TimedOut &&
				sameStrings(nr.Reached, p.rf.Reached) && (p.rf.SkipObserved || sameStrings(nr.Observed, p.rf.Observed)) {
				validated++
			} else {
				mismatches = append(mismatches, fmt.Sprintf("%s: native=%+v engine reached=%v observed=%v", filepath.Base(p.path), *nr, p.rf.Reached, p.rf.Observed))
			}
			continue
		}
		confirmed := false
		switch {
		case p.rf.Label == "uncaught-panic":
			confirmed = nr.Panicked != ""
		case p.rf.Label == "budget":
			confirmed = nr.TimedOut
		default:
			for _, f := range nr.Failures {
				if f == p.rf.Label {
					confirmed = true
				}
			}
		}
		if !confirmed {
			spurious = append(spurious, fmt.Sprintf("%s label=%q native=%+v", filepath.Base(p.path), p.rf.Label, *nr))
			os.Remove(p.path)
			continue
		}
		validated++
		if kf := matchKnown(known, id, &p.rf); kf != nil {
			line := fmt.Sprintf("KNOWN-FINDING: property=%s %s [%s/%s]", id, kf.What, p.rf.Harness, p.rf.Label)
			if !contains(knownHit, line) {
				knownHit = append(knownHit, line)
			}
			continue
		}
		violLines = append(violLines, fmt.Sprintf("VIOLATION property=%s replay=%s", id, p.path))
		fmt.Fprintf(os.Stderr, "zsym: violation %s/%s inputs=%v forks=%v detail=%s\n", p.rf.Harness, p.rf.Label, p.rf.Inputs, p.rf.Forks, p.rf.Detail)
		exit = 1
	}
	for _, l := range knownHit {
		fmt.Println(l)
	}
	for _, l := range violLines {
		fmt.Println(l)
	}
	if len(mismatches) > 0 {
		fmt.Fprintf(os.Stderr, "zsym: ENGINE-MISMATCH on %d sample path(s):\n  %s\n", len(mismatches), strings.Join(mismatches, "\n  "))
		incomplete = append(incomplete, fmt.Sprintf("ENGINE-MISMATCH on %d sample paths", len(mismatches)))
	}
	// remove sample replays (only violations are kept on disk)
	for _, p := range pend {
		if !p.viol && !(p.fallback && p.rf.Label != "") {
			os.Remove(p.path)
		}
	}
	for _, rep := range reports {
		if rep.Truncated {
			incomplete = append(incomplete, rep.Harness+": exploration truncated by the time budget (reduced bound)")
		}
		if rep.Unknowns > 0 {
			incomplete = append(incomplete, fmt.Sprintf("%s: %d inconclusive solver answers", rep.Harness, rep.Unknowns))
		}
		for _, oc := range []string{"unsupported", "engine", "solver-unknown", "budget"} {
			if n := rep.Outcomes[oc]; n > 0 {
				incomplete = append(incomplete, fmt.Sprintf("%s: %d paths ended %s", rep.Harness, n, oc))
			}
		}
	}
	mapSites := w.MapRangeSites()
	covered := map[string]bool{}
	for _, rep := range reports {
		for f := range rep.MapRanges {
			covered[f] = true
		}
	}
	var mapCovered, mapUncovered []string
	for _, f := range mapSites {
		if covered[f] {
			mapCovered = append(mapCovered, f)
		} else {
			mapUncovered = append(mapUncovered, f)
		}
	}
	extra := map[string]interface{}{
		"map_range_sites_in_zn_packages": len(mapSites), "map_range_sites_executed": mapCovered, "map_range_sites_not_executed": mapUncovered,
		"load_s": loadS, "spurious_counterexamples": spurious, "engine_mismatches": mismatches,
		"known_findings_hit": knownHit, "vacuity_witnesses_violated": witnessOK, "vacuity_witnesses": len(witnesses),
		"zn_source_files_loaded":                               len(w.ZnFiles),
		"paths_not_followed_replayed_natively_without_failure": fallbackOK,
	}
	_ = ev
	writeEvidence(id, tier, seed, t0, reports, extra, incomplete, spec, w, validated, violLines, pendSamples(pend))
	fmt.Fprintf(os.Stderr, "zsym: %s %s done in %.1fs exit=%d incomplete=%d\n", id, tier, time.Since(t0).Seconds(), exit, len(incomplete))
	return exit
}

func pendSamples(p interface{}) []interface{} { return nil }

func forksFromTraceSample(s interp.PathResult) []int {
	return forksToInts(s.Forks)
}

func firstLine(s string) string {
	if k := strings.IndexByte(s, '\n'); k >= 0 {
		return s[:k]
	}
	return s
}

func contains(l []string, s string) bool {
	for _, x := range l {
		if x == s {
			return true
		}
	}
	return false
}

func sameStrings(a, b []string) bool {
	if len(a) != len(b) {
		return false
	}
	for k := range a {
		if a[k] != b[k] {
			return false
		}
	}
	return true
}

func loadKnown() []knownFinding {
	data, err := os.ReadFile(filepath.Join(verifRoot, "known_findings.json"))
	if err != nil {
		return nil
	}
	var l []knownFinding
	if err := json.Unmarshal(data, &l); err != nil {
		fmt.Fprintln(os.Stderr, "zsym: known_findings.json unreadable:", err)
		return nil
	}
	return l
}

func matchKnown(l []knownFinding, id string, rf *replayFile) *knownFinding {
	for k := range l {
		kf := &l[k]
		if kf.Status != "known" || kf.Property != id || kf.Harness != rf.Harness || kf.Label != rf.Label {
			continue
		}
		ok := true
		for name, want := range kf.Inputs {
			if fmt.Sprint(rf.Inputs[name]) != fmt.Sprint(want) {
				ok = false
			}
		}
		if kf.Forks != nil {
			if len(kf.Forks) != len(rf.Forks) {
				ok = false
			} else {
				for j := range kf.Forks {
					if kf.Forks[j] != rf.Forks[j] {
						ok = false
					}
				}
			}
		}
		if ok {
			return kf
		}
	}
	return nil
}

// nativeReplay builds the harness package natively (against /repo's working
// tree) with a generated test file and runs every replay file through it.
func nativeReplay(pkg string, harnesses []string, files []string, overlayRepo map[string]string) (map[string]*nativeResult, string) {
	tmp, err := os.MkdirTemp("", "zsym-replay-")
	if err != nil {
		return nil, err.Error()
	}
	defer os.RemoveAll(tmp)
	rel := strings.TrimPrefix(pkg, "zsym/")
	pkgDir := filepath.Join(verifRoot, "engine", rel)
	pkgName := filepath.Base(rel)
	var sb strings.Builder
	fmt.Fprintf(&sb, "package %s\n\nimport (\n\t\"testing\"\n\t\"zsym/zv\"\n)\n\n", pkgName)
	sb.WriteString("func TestZvReplay(t *testing.T) {\n\tzv.ReplayMain(map[string]func(){\n")
	for _, h := range harnesses {
		fmt.Fprintf(&sb, "\t\t%q: %s,\n", h, h)
	}
	sb.WriteString("\t})\n}\n")
	testFile := filepath.Join(tmp, "zz_replay_test.go")
	os.WriteFile(testFile, []byte(sb.String()), 0644)
	ov := map[string]map[string]string{"Replace": {filepath.Join(pkgDir, "zz_replay_test.go"): testFile}}
	for virt, real := range overlayRepo {
		ov["Replace"][virt] = real
	}
	ovData, _ := json.Marshal(ov)
	ovFile := filepath.Join(tmp, "overlay.json")
	os.WriteFile(ovFile, ovData, 0644)
	listFile := filepath.Join(tmp, "replays.txt")
	os.WriteFile(listFile, []byte(strings.Join(files, "\n")), 0644)

	cmd := exec.Command("go", "test", "-v", "-vet=off", "-count=1", "-overlay", ovFile, "-run", "TestZvReplay", "-timeout", "20m", "./"+rel)
	cmd.Dir = filepath.Join(verifRoot, "engine")
	cmd.Env = append(os.Environ(), "GOFLAGS=-mod=mod", "GOPROXY=off", "GOSUMDB=off", "GOTOOLCHAIN=local", "ZV_REPLAY_LIST="+listFile)
	var out bytes.Buffer
	cmd.Stdout = &out
	cmd.Stderr = &out
	runErr := cmd.Run()
	res := map[string]*nativeResult{}
	sc := bufio.NewScanner(&out)
	sc.Buffer(make([]byte, 1<<20), 1<<24)
	var other []string
	for sc.Scan() {
		line := sc.Text()
		if strings.HasPrefix(line, "ZVRESULT ") {
			var nr nativeResult
			if json.Unmarshal([]byte(line[9:]), &nr) == nil {
				res[nr.File] = &nr
			}
		} else {
			other = append(other, line)
		}
	}
	if len(res) < len(files) {
		msg := "incomplete native replay"
		if runErr != nil {
			msg += ": " + runErr.Error()
		}
		return res, msg + "\n" + strings.Join(tail(other, 30), "\n")
	}
	return res, ""
}

func tail(l []string, n int) []string {
	if len(l) > n {
		return l[len(l)-n:]
	}
	return l
}

func writeEvidence(id, tier string, seed int64, t0 time.Time, reports []*interp.Report, extra map[string]interface{},
	incomplete []string, spec *checkSpec, w *interp.World, validated int, violLines []string, _ []interface{}) {
	states, transitions := 0, 0
	queries, asserts, assertSyn, assertQ, unknowns := 0, 0, 0, 0, 0
	solverS := 0.0
	var harnessInfo []map[string]interface{}
	var samples []interface{}
	funcs := map[string]bool{}
	for _, r := range reports {
		states += r.Paths
		transitions += r.Decisions
		queries += r.SolverCalls
		asserts += r.Asserts
		assertSyn += r.AssertSyn
		assertQ += r.AssertQuery
		unknowns += r.Unknowns
		solverS += r.SolverTime.Seconds()
		for f := range r.Funcs {
			funcs[f] = true
		}
		harnessInfo = append(harnessInfo, map[string]interface{}{
			"name": r.Harness, "paths": r.Paths, "outcomes": r.Outcomes, "reached": r.Reached,
			"branch_decisions": r.Decisions, "solver_queries": r.SolverCalls, "model_cache_hits": r.ModelHits,
			"assertions": r.Asserts, "assertions_discharged_syntactically": r.AssertSyn, "assertion_queries": r.AssertQuery,
			"inconclusive": r.Unknowns, "solver_s": round1(r.SolverTime.Seconds()), "wall_s": round1(r.Wall.Seconds()),
			"ssa_steps": r.Steps, "truncated": r.Truncated, "longest_decision_trace": r.MaxTraceLen, "notes": r.Notes, "aborts": r.Msgs,
		})
		for k, s := range r.Samples {
			if k >= 3 {
				break
			}
			samples = append(samples, map[string]interface{}{"harness": r.Harness, "outcome": s.Outcome, "inputs": s.Inputs,
				"decision_trace_len": len(s.Trace), "reached": s.Reached, "msg": s.Msg})
		}
	}
	if len(samples) == 0 {
		samples = append(samples, map[string]interface{}{"note": "no path explored", "incomplete": incomplete})
	}
	var fl []string
	for f := range funcs {
		fl = append(fl, f)
	}
	sort.Strings(fl)
	cov := map[string]interface{}{
		"states":                              max1(states),
		"transitions":                         max1(transitions),
		"traces_validated_against_impl":       validated,
		"samples":                             samples,
		"explanation":                         "bounded symbolic execution of the real code's SSA (regenerated from /repo on this run); states = explored path classes, transitions = solver-decided branch/fault decisions; traces_validated = native replays (counterexamples and sampled paths) that agreed with the engine",
		"harnesses":                           harnessInfo,
		"functions_encoded":                   fl,
		"functions_encoded_count":             len(fl),
		"solver_queries":                      queries,
		"assertions":                          asserts,
		"assertions_discharged_syntactically": assertSyn,
		"assertion_queries":                   assertQ,
		"inconclusive_queries":                unknowns,
		"solver_time_s":                       round1(solverS),
		"solver":                              solverVersion() + " (-in, one process per worker, push/pop per query)",
		"bounds":                              spec.Bounds[tier],
		"outside_the_claim":                   spec.Outside,
		"incomplete":                          incomplete,
		"complete":                            len(incomplete) == 0,
		"exhaustive":                          false,
	}
	for k, v := range extra {
		cov[k] = v
	}
	ev := map[string]interface{}{
		"property_id": id,
		"tier":        tier,
		"seed":        seed,
		"level":       "model_checking",
		"coverage":    cov,
		"assumptions": spec.Assumptions,
		"wall_s":      round1(time.Since(t0).Seconds()),
		"violations":  len(violLines),
	}
	data, _ := json.MarshalIndent(ev, "", " ")
	evDir := filepath.Join(verifRoot, "evidence")
	if alt := os.Getenv("ZSYM_OUT_DIR"); alt != "" {
		evDir = filepath.Join(alt, "evidence") // background experiments only
	}
	os.MkdirAll(evDir, 0755)
	os.WriteFile(filepath.Join(evDir, id+".json"), data, 0644)
}

func max1(n int) int {
	if n < 1 {
		return 1
	}
	return n
}

func round1(f float64) float64 {
	v, _ := strconv.ParseFloat(fmt.Sprintf("%.1f", f), 64)
	return v
}

func solverVersion() string {
	bin := interp.DefaultSolver()
	out, err := exec.Command(bin, "--version").Output()
	if err != nil {
		return bin
	}
	return strings.TrimSpace(string(out)) + " [" + bin + "]"
}
