package main

import (
	"encoding/json"
	"flag"
	"fmt"
	"os"
	"strings"
	"time"

	"zsym/interp"
)

func main() {
	if len(os.Args) > 1 && os.Args[1] == "check" {
		fs := flag.NewFlagSet("check", flag.ExitOnError)
		id := fs.String("id", "", "property id")
		tier := fs.String("tier", "", "quick|thorough")
		only := fs.String("only", "", "only these harnesses")
		fs.Parse(os.Args[2:])
		if *tier == "" {
			*tier = os.Getenv("VERIF_TIER")
		}
		if *tier == "" {
			*tier = "quick"
		}
		var seed int64
		fmt.Sscan(os.Getenv("VERIF_SEED"), &seed)
		os.Exit(runCheck(*id, *tier, seed, *only))
	}
	pkg := flag.String("pkg", "", "harness package import path")
	run := flag.String("run", "", "comma separated harness function names (default: all H_*)")
	workers := flag.Int("workers", 16, "parallel workers")
	solver := flag.String("solver", "", "solver binary (default: $ZSYM_SOLVER, z3-new, z3)")
	timeout := flag.Int("timeout", 10000, "per-query timeout ms")
	maxPaths := flag.Int("maxpaths", 0, "stop after this many paths")
	maxSteps := flag.Int64("maxsteps", 2000000, "per-path SSA step budget")
	jsonOut := flag.String("json", "", "write report JSON here")
	verbose := flag.Bool("v", false, "print samples")
	specID := flag.String("spec", "", "take package and overlay from checks.json entry")
	tierF := flag.Int("tier", 0, "0 quick, 1 thorough")
	flag.Parse()
	t0 := time.Now()
	var overlay map[string][]byte
	if *specID != "" {
		sp := loadSpecs()[*specID]
		if sp == nil {
			fatal("no spec %s", *specID)
		}
		*pkg = sp.Pkg
		overlay = map[string][]byte{}
		for virt, real := range sp.Overlay {
			data, err := os.ReadFile("/verif/engine/" + real)
			if err != nil {
				fatal("overlay: %v", err)
			}
			overlay["/repo/"+virt] = data
		}
		for _, g := range sp.OverlayGen {
			data, err := os.ReadFile("/repo/" + g.Src)
			if err != nil {
				fatal("overlay_gen: %v", err)
			}
			text := string(data)
			for _, r := range g.Replace {
				if strings.HasPrefix(r[0], "*") {
					text = strings.ReplaceAll(text, r[0][1:], r[1])
					continue
				}
				text = strings.Replace(text, r[0], r[1], 1)
			}
			overlay["/repo/"+g.Dst] = []byte(text)
		}
	}
	w, err := interp.Load(".", overlay, *pkg)
	if err != nil {
		fmt.Fprintln(os.Stderr, "load:", err)
		os.Exit(2)
	}
	w.Tier = *tierF
	fmt.Fprintf(os.Stderr, "loaded in %.1fs\n", time.Since(t0).Seconds())
	names := w.HarnessFuncs("H_")
	if *run != "" {
		names = strings.Split(*run, ",")
	}
	var reports []*interp.Report
	for _, n := range names {
		rep, err := w.Explore(n, interp.Options{Workers: *workers, SolverBin: *solver, TimeoutMs: *timeout, MaxPaths: *maxPaths, MaxSteps: *maxSteps})
		if err != nil {
			fmt.Fprintln(os.Stderr, err)
			os.Exit(2)
		}
		fmt.Print(rep.Summary())
		fmt.Printf("   reached=%v violations=%d\n", rep.Reached, len(rep.Violations))
		for _, v := range rep.Violations {
			fmt.Printf("   VIOL %s inputs=%v forks=%v detail=%s\n", v.Label, v.Inputs, v.Forks, v.Detail)
		}
		if *verbose {
			for _, s := range rep.Samples {
				fmt.Printf("   sample %s %s inputs=%v reached=%v obs=%v\n", s.Outcome, s.Msg, s.Inputs, s.Reached, s.Observed)
			}
		}
		reports = append(reports, rep)
	}
	if *jsonOut != "" {
		data, _ := json.MarshalIndent(reports, "", " ")
		os.WriteFile(*jsonOut, data, 0644)
	}
}
