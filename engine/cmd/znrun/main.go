// znrun: native scratch runner (debug aid): parse / execute a Zn source text
// given as Go-quoted string argument(s) and print the outcome.
package main

import (
	"fmt"
	"os"
	"strconv"

	"github.com/DemoHn/Zn/pkg/exec"
	"github.com/DemoHn/Zn/pkg/syntax"
	"github.com/DemoHn/Zn/pkg/syntax/zh"
)

func main() {
	mode := os.Args[1]
	for _, a := range os.Args[2:] {
		src, err := strconv.Unquote(`"` + a + `"`)
		if err != nil {
			src = a
		}
		func() {
			defer func() {
				if r := recover(); r != nil {
					fmt.Printf("%q => PANIC %v\n", src, r)
				}
			}()
			switch mode {
			case "parse":
				p := syntax.NewParser([]rune(src), zh.NewParserZH())
				tree, err := p.Parse()
				if err != nil {
					fmt.Printf("%q => ERR %T %v\n   display: %q\n", src, err, err, exec.DisplayError(exec.WrapSyntaxError(p, "主模块", err)))
				} else {
					fmt.Printf("%q => TREE %s\n", src, syntax.StringifyAST(tree))
				}
			case "exec":
				res, err := exec.NewInterpreter("x").LoadScript([]rune(src)).Execute(nil)
				if err != nil {
					fmt.Printf("%q => ERR %T\n%s\n", src, err, exec.DisplayError(err))
				} else if res == nil {
					fmt.Printf("%q => NIL ELEMENT\n", src)
				} else {
					fmt.Printf("%q => %s\n", src, res.String())
				}
			}
		}()
	}
}
