package interp

// Symbolic scalars: bool, all integer kinds, float64/float32.

import (
	"fmt"
	"go/token"
	"go/types"
	"golang.org/x/tools/go/ssa"
	"math"
	"os"
	"strings"

	"zsym/smt"
)

// Sym is a symbolic scalar of Go basic kind K.
type Sym struct {
	T *smt.Term
	K types.BasicKind
}

func (s *Sym) String() string { return fmt.Sprintf("sym<%s>", s.T.String()) }

func kindOf(v value) types.BasicKind {
	switch v := v.(type) {
	case *Sym:
		return v.K
	case bool:
		return types.Bool
	case int:
		return types.Int
	case int8:
		return types.Int8
	case int16:
		return types.Int16
	case int32:
		return types.Int32
	case int64:
		return types.Int64
	case uint:
		return types.Uint
	case uint8:
		return types.Uint8
	case uint16:
		return types.Uint16
	case uint32:
		return types.Uint32
	case uint64:
		return types.Uint64
	case uintptr:
		return types.Uintptr
	case float32:
		return types.Float32
	case float64:
		return types.Float64
	}
	return types.Invalid
}

// intInfo returns width and signedness of an integer kind.
func intInfo(k types.BasicKind) (w int, signed bool, ok bool) {
	switch k {
	case types.Int, types.Int64:
		return 64, true, true
	case types.Int8:
		return 8, true, true
	case types.Int16:
		return 16, true, true
	case types.Int32:
		return 32, true, true
	case types.Uint, types.Uint64, types.Uintptr:
		return 64, false, true
	case types.Uint8:
		return 8, false, true
	case types.Uint16:
		return 16, false, true
	case types.Uint32:
		return 32, false, true
	}
	return 0, false, false
}

func sortOfKind(k types.BasicKind) smt.Sort {
	switch k {
	case types.Bool:
		return smt.Bool
	case types.Float64:
		return smt.FP64
	case types.Float32:
		return smt.FP32
	}
	w, _, ok := intInfo(k)
	if !ok {
		panic(fmt.Sprintf("sortOfKind: %v", k))
	}
	return smt.BV(w)
}

// term converts a scalar value (concrete or symbolic) to a term.
func (i *interpreter) term(v value) *smt.Term {
	b := i.path.B
	switch v := v.(type) {
	case *Sym:
		return b.Resolve(v.T)
	case bool:
		return b.BoolC(v)
	case float64:
		return b.FPC(v)
	case float32:
		return b.FP32C(v)
	}
	k := kindOf(v)
	w, _, ok := intInfo(k)
	if !ok {
		panic(fmt.Sprintf("term: unsupported value %T", v))
	}
	return b.BVC(w, uint64(asInt64(v)))
}

// mkScalar wraps a term as a value of kind k, concretising constants.
func mkScalar(t *smt.Term, k types.BasicKind) value {
	if t.IsConst() {
		return concreteOfKind(k, t.U)
	}
	return &Sym{T: t, K: k}
}

func concreteOfKind(k types.BasicKind, u uint64) value {
	switch k {
	case types.Bool:
		return u == 1
	case types.Int:
		return int(u)
	case types.Int8:
		return int8(u)
	case types.Int16:
		return int16(u)
	case types.Int32:
		return int32(u)
	case types.Int64:
		return int64(u)
	case types.Uint:
		return uint(u)
	case types.Uint8:
		return uint8(u)
	case types.Uint16:
		return uint16(u)
	case types.Uint32:
		return uint32(u)
	case types.Uint64:
		return u
	case types.Uintptr:
		return uintptr(u)
	case types.Float64:
		return math.Float64frombits(u)
	case types.Float32:
		return math.Float32frombits(uint32(u))
	}
	panic(fmt.Sprintf("concreteOfKind: %v", k))
}

func isSym(v value) bool { _, ok := v.(*Sym); return ok }

// symBinop implements binary operators when at least one operand is symbolic.
func (i *interpreter) symBinop(op token.Token, x, y value) value {
	b := i.path.B
	k := kindOf(x)
	if k == types.Invalid {
		k = kindOf(y)
	}
	if sx, ok := x.(*Sym); ok {
		k = sx.K
	} else if sy, ok := y.(*Sym); ok && op != token.SHL && op != token.SHR {
		k = sy.K
	}
	tx := i.term(x)
	switch k {
	case types.Bool:
		ty := i.term(y)
		switch op {
		case token.EQL:
			return mkScalar(b.Eq(tx, ty), types.Bool)
		case token.NEQ:
			return mkScalar(b.Not(b.Eq(tx, ty)), types.Bool)
		case token.LAND, token.AND:
			return mkScalar(b.And(tx, ty), types.Bool)
		case token.LOR, token.OR:
			return mkScalar(b.Or(tx, ty), types.Bool)
		}
	case types.Float64, types.Float32:
		ty := i.term(y)
		switch op {
		case token.ADD:
			return mkScalar(b.FPBin(smt.OFPAdd, tx, ty), k)
		case token.SUB:
			return mkScalar(b.FPBin(smt.OFPSub, tx, ty), k)
		case token.MUL:
			return mkScalar(b.FPBin(smt.OFPMul, tx, ty), k)
		case token.QUO:
			return mkScalar(b.FPBin(smt.OFPDiv, tx, ty), k)
		case token.EQL:
			return mkScalar(b.FPBin(smt.OFPEq, tx, ty), types.Bool)
		case token.NEQ:
			return mkScalar(b.Not(b.FPBin(smt.OFPEq, tx, ty)), types.Bool)
		case token.LSS:
			return mkScalar(b.FPBin(smt.OFPLt, tx, ty), types.Bool)
		case token.LEQ:
			return mkScalar(b.FPBin(smt.OFPLeq, tx, ty), types.Bool)
		case token.GTR:
			return mkScalar(b.FPBin(smt.OFPLt, ty, tx), types.Bool)
		case token.GEQ:
			return mkScalar(b.FPBin(smt.OFPLeq, ty, tx), types.Bool)
		}
	default:
		w, signed, ok := intInfo(k)
		if !ok {
			break
		}
		if op == token.SHL || op == token.SHR {
			// shift count may have a different integer type
			ky := kindOf(y)
			wy, sy, _ := intInfo(ky)
			ty := i.term(y)
			if sy {
				// negative shift count panics
				neg := b.BVBin(smt.OBVSlt, ty, b.BVC(wy, 0))
				if i.decideT(neg) {
					panic(goPanic("runtime error: negative shift amount"))
				}
			}
			// saturate the count at w in the wider width, then resize to w bits
			W := w
			if wy > W {
				W = wy
			}
			tyw := b.Resize(ty, W, false)
			sat := b.Ite(b.BVBin(smt.OBVUle, b.BVC(W, uint64(w)), tyw), b.BVC(W, uint64(w)), tyw)
			cnt := b.Resize(sat, w, false)
			switch {
			case op == token.SHL:
				return mkScalar(b.BVBin(smt.OBVShl, tx, cnt), k)
			case signed:
				return mkScalar(b.BVBin(smt.OBVAshr, tx, cnt), k)
			default:
				return mkScalar(b.BVBin(smt.OBVLshr, tx, cnt), k)
			}
		}
		ty := i.term(y)
		pick := func(s, u smt.Op) smt.Op {
			if signed {
				return s
			}
			return u
		}
		switch op {
		case token.ADD:
			return mkScalar(b.BVBin(smt.OBVAdd, tx, ty), k)
		case token.SUB:
			return mkScalar(b.BVBin(smt.OBVSub, tx, ty), k)
		case token.MUL:
			return mkScalar(b.BVBin(smt.OBVMul, tx, ty), k)
		case token.QUO, token.REM:
			if i.decideT(b.Eq(ty, b.BVC(w, 0))) {
				panic(goPanic("runtime error: integer divide by zero"))
			}
			if op == token.QUO {
				return mkScalar(b.BVBin(pick(smt.OBVSDiv, smt.OBVUDiv), tx, ty), k)
			}
			return mkScalar(b.BVBin(pick(smt.OBVSRem, smt.OBVURem), tx, ty), k)
		case token.AND:
			return mkScalar(b.BVBin(smt.OBVAnd, tx, ty), k)
		case token.OR:
			return mkScalar(b.BVBin(smt.OBVOr, tx, ty), k)
		case token.XOR:
			return mkScalar(b.BVBin(smt.OBVXor, tx, ty), k)
		case token.AND_NOT:
			return mkScalar(b.BVBin(smt.OBVAnd, tx, b.BVNot(ty)), k)
		case token.EQL:
			return mkScalar(b.Eq(tx, ty), types.Bool)
		case token.NEQ:
			return mkScalar(b.Not(b.Eq(tx, ty)), types.Bool)
		case token.LSS:
			return mkScalar(b.BVBin(pick(smt.OBVSlt, smt.OBVUlt), tx, ty), types.Bool)
		case token.LEQ:
			return mkScalar(b.BVBin(pick(smt.OBVSle, smt.OBVUle), tx, ty), types.Bool)
		case token.GTR:
			return mkScalar(b.BVBin(pick(smt.OBVSlt, smt.OBVUlt), ty, tx), types.Bool)
		case token.GEQ:
			return mkScalar(b.BVBin(pick(smt.OBVSle, smt.OBVUle), ty, tx), types.Bool)
		}
	}
	panic(pathAbort{kind: abortUnsupported, msg: fmt.Sprintf("symbolic binop %s on %T,%T", op, x, y)})
}

func (i *interpreter) symUnop(op token.Token, x *Sym) value {
	b := i.path.B
	switch op {
	case token.NOT:
		return mkScalar(b.Not(x.T), types.Bool)
	case token.SUB:
		if x.K == types.Float64 || x.K == types.Float32 {
			return mkScalar(b.FPUn(smt.OFPNeg, x.T), x.K)
		}
		return mkScalar(b.BVNeg(x.T), x.K)
	case token.XOR:
		return mkScalar(b.BVNot(x.T), x.K)
	}
	panic(pathAbort{kind: abortUnsupported, msg: fmt.Sprintf("symbolic unop %s", op)})
}

// symConv converts symbolic scalar x to basic kind dst.
func (i *interpreter) symConv(dst types.BasicKind, x *Sym) value {
	b := i.path.B
	if dst == x.K {
		return x
	}
	srcW, srcSigned, srcInt := intInfo(x.K)
	dstW, dstSigned, dstInt := intInfo(dst)
	_ = srcW
	switch {
	case srcInt && dstInt:
		return mkScalar(b.Resize(x.T, dstW, srcSigned), dst)
	case srcInt && (dst == types.Float64 || dst == types.Float32):
		s := sortOfKind(dst)
		if srcSigned {
			return mkScalar(b.SBVToFP(s, x.T), dst)
		}
		return mkScalar(b.UBVToFP(s, x.T), dst)
	case (x.K == types.Float64 || x.K == types.Float32) && dstInt:
		// amd64: CVTTSD2SQ yields 0x8000000000000000 for NaN and values
		// outside int64; narrower / unsigned targets truncate that result
		// (assumption recorded in the evidence).
		f := x.T
		if x.K == types.Float32 {
			f = b.FPToFP(smt.FP64, f)
		}
		lo := b.FPC(-9223372036854775808.0)
		hi := b.FPC(9223372036854775808.0)
		inRange := b.And(b.FPBin(smt.OFPLeq, lo, f), b.FPBin(smt.OFPLt, f, hi))
		r := b.Ite(inRange, b.FPToSBV(64, f), b.BVC(64, 1<<63))
		if dstW == 64 && !dstSigned {
			// uint64(f): Go compiles a two-range conversion on amd64
			two63 := hi
			big := b.And(b.FPBin(smt.OFPLeq, two63, f), b.FPBin(smt.OFPLt, f, b.FPC(18446744073709551616.0)))
			shifted := b.BVBin(smt.OBVXor, b.FPToSBV(64, b.FPBin(smt.OFPSub, f, two63)), b.BVC(64, 1<<63))
			r = b.Ite(big, shifted, r)
			i.path.Imprecise("float->uint64 conversion modelled after amd64 code sequence")
		}
		return mkScalar(b.Resize(r, dstW, true), dst)
	case x.K == types.Float64 && dst == types.Float32:
		return mkScalar(b.FPToFP(smt.FP32, x.T), dst)
	case x.K == types.Float32 && dst == types.Float64:
		return mkScalar(b.FPToFP(smt.FP64, x.T), dst)
	}
	panic(pathAbort{kind: abortUnsupported, msg: fmt.Sprintf("symbolic conversion %v -> %v", x.K, dst)})
}

// concretizeInt turns an integer value into a concrete int64, forking over
// the values in [lo,hi] when it is symbolic (the caller has already
// established lo <= v <= hi on this path).
func (i *interpreter) concretizeInt(v value, lo, hi int64) int64 {
	s, ok := v.(*Sym)
	if !ok {
		return asInt64(v)
	}
	b := i.path.B
	w, signed, _ := intInfo(s.K)
	// try the model value first to keep the model valid
	for c := lo; c <= hi; c++ {
		if c == hi {
			// last candidate: must hold
			i.path.AssumeT(b.Eq(s.T, b.BVC(w, uint64(c))))
			return c
		}
		_ = signed
		if i.decideT(b.Eq(s.T, b.BVC(w, uint64(c)))) {
			return c
		}
	}
	panic(pathAbort{kind: abortInfeasible, msg: "concretizeInt: empty range"})
}

// checkIndexRange decides 0 <= idx < n for a symbolic index (Go panic on the
// other side) without concretising it.
func (i *interpreter) checkIndexRange(s *Sym, n int) {
	b := i.path.B
	_, signed, _ := intInfo(s.K)
	t64 := b.Resize(s.T, 64, signed)
	in := b.And(b.BVBin(smt.OBVSle, b.BVC(64, 0), t64), b.BVBin(smt.OBVSlt, t64, b.BVC(64, uint64(n))))
	if !i.decideT(in) {
		if os.Getenv("ZSYM_DEBUG") != "" {
			var pcs []string
			for _, t := range i.path.pcTerms {
				pcs = append(pcs, t.String())
			}
			i.path.Notes["DEBUG idx="+s.T.String()+" in="+in.String()+" pc="+strings.Join(pcs, " ∧ ")]++
		}
		panic(goPanic(fmt.Sprintf("runtime error: index out of range [symbolic] with length %d", n)))
	}
}

// symIndexCheck decides 0 <= idx < n (n concrete) and returns a concrete
// index, panicking Go-style on the out-of-range side.
func (i *interpreter) checkIndex(idx value, n int) int {
	s, ok := idx.(*Sym)
	if !ok {
		x := asInt64(idx)
		if x < 0 || x >= int64(n) {
			panic(goPanic(fmt.Sprintf("runtime error: index out of range [%d] with length %d", x, n)))
		}
		return int(x)
	}
	b := i.path.B
	_, signed, _ := intInfo(s.K)
	// compare in 64 bits so that lengths beyond the index type's range work
	t64 := b.Resize(s.T, 64, signed)
	in := b.And(b.BVBin(smt.OBVSle, b.BVC(64, 0), t64), b.BVBin(smt.OBVSlt, t64, b.BVC(64, uint64(n))))
	if !i.decideT(in) {
		panic(goPanic(fmt.Sprintf("runtime error: index out of range [symbolic] with length %d", n)))
	}
	return int(i.concretizeInt(idx, 0, int64(n-1)))
}

const smtSlt = smt.OBVSlt

// symSelect reads elems[idx] for a symbolic index without forking when all
// elements are scalars of one kind: the result is an ite over runs of equal
// values.  The caller has established 0 <= idx < len(elems).
func (i *interpreter) symSelect(elems []value, idx *Sym) (value, bool) {
	if len(elems) < 4 {
		return nil, false
	}
	k0 := kindOf(elems[0])
	if k0 == types.Invalid {
		return nil, false
	}
	for _, e := range elems {
		if kindOf(e) != k0 {
			return nil, false
		}
	}
	b := i.path.B
	_, signed, _ := intInfo(idx.K)
	t64 := b.Resize(idx.T, 64, signed)
	// runs of identical terms
	type run struct {
		lo, hi int
		t      *smt.Term
	}
	var runs []run
	for k, e := range elems {
		t := i.term(e)
		if n := len(runs); n > 0 && runs[n-1].t == t {
			runs[n-1].hi = k
			continue
		}
		runs = append(runs, run{k, k, t})
	}
	if len(runs) > 600 {
		return nil, false
	}
	acc := runs[len(runs)-1].t
	for r := len(runs) - 2; r >= 0; r-- {
		// idx <= hi (runs are visited in increasing order, so lo is implied)
		c := b.BVBin(smt.OBVSle, t64, b.BVC(64, uint64(runs[r].hi)))
		acc = b.Ite(c, runs[r].t, acc)
	}
	return mkScalar(acc, k0), true
}

// onlyLoaded reports whether every use of the address computed by instr is a load.
func onlyLoaded(instr *ssa.IndexAddr) bool {
	refs := instr.Referrers()
	if refs == nil || len(*refs) == 0 {
		return false
	}
	for _, r := range *refs {
		u, ok := r.(*ssa.UnOp)
		if !ok || u.Op != token.MUL {
			if _, isDbg := r.(*ssa.DebugRef); isDbg {
				continue
			}
			return false
		}
	}
	return true
}
