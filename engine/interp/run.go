package interp

import (
	"fmt"
	"go/token"
	"go/types"
	"runtime"
	"strings"
	"time"

	"golang.org/x/tools/go/ssa"
)

// callSSA interprets a call to function fn with arguments args,
// and lexical environment env, returning its result.
func callSSA(i *interpreter, caller *frame, callpos token.Pos, fn *ssa.Function, args []value, env []value) value {
	fr := &frame{
		i:      i,
		caller: caller, // for panic/recover
		fn:     fn,
	}
	i.path.Depth++
	if i.path.Depth > 3000 {
		panic(pathAbort{abortBudget, "call depth > 3000 (runaway recursion?) in " + fn.String()})
	}
	defer func() { i.path.Depth-- }()

	if fn.Parent() == nil {
		name := fn.String()
		if len(i.hooks) > 0 {
			if h, ok := i.hooks[name]; ok {
				return call(i, caller, callpos, h, args)
			}
		}
		if ext := externals[name]; ext != nil {
			return ext(fr, args)
		}
		if fn.Signature.Recv() != nil && len(args) > 0 {
			if no, ok := args[0].(*nativeObj); ok {
				return i.ffiMethod(fr, fn, no, args[1:])
			}
		}
		if m, ok := ffiModels[name]; ok {
			// models also serve interpreted standard-library functions
			// (unicode/utf8 on symbolic strings)
			if r, handled := m(i, fr, args); handled {
				return r
			}
		}
		switch i.classify(fn) {
		case fnZV:
			return i.zvCall(fr, fn, args)
		case fnForeign:
			if !(forceInterp[name] && fn.Blocks != nil && interpretForeign(fn, args)) {
				return i.ffiCall(fr, fn, args)
			}
			// a small, pure standard-library function executed from its SSA
			// because symbolic data flows through it
		}
		if fn.Blocks == nil {
			panic(pathAbort{abortUnsupported, "no code for function: " + name})
		}
	}

	// generic function body?
	if fn.TypeParams().Len() > 0 && len(fn.TypeArgs()) == 0 {
		panic("interp requires ssa.BuilderMode to include InstantiateGenerics to execute generics")
	}
	if i.path.local == nil && !i.noSummary && i.world.isPure(fn) && anySymbolic(args) {
		i.path.FuncsSeen[fn.String()] = true
		if r, ok := i.summarize(caller, fn, args, env); ok {
			return r
		}
	}
	return callSSABody(i, caller, fn, args, env)
}

// callSSABody runs the body of an interpreted function.
func callSSABody(i *interpreter, caller *frame, fn *ssa.Function, args []value, env []value) value {
	fr := &frame{
		i:      i,
		caller: caller,
		fn:     fn,
	}
	if i.world.trackFuncs {
		if p := fn.Package(); p != nil && strings.HasPrefix(p.Pkg.Path(), znPrefix) {
			i.path.FuncsSeen[fn.String()] = true
		}
	}

	fr.env = make(map[ssa.Value]value, len(fn.Params)+8)
	fr.block = fn.Blocks[0]
	fr.locals = make([]value, len(fn.Locals))
	for k, l := range fn.Locals {
		fr.locals[k] = zero(mustDeref(l.Type()))
		fr.env[l] = &fr.locals[k]
	}
	for k, p := range fn.Params {
		fr.env[p] = args[k]
	}
	for k, fv := range fn.FreeVars {
		fr.env[fv] = env[k]
	}
	for fr.block != nil {
		runFrame(fr)
	}
	return fr.result
}

// runFrame executes SSA instructions starting at fr.block and
// continuing until a return, a panic, or a recovered panic.
func runFrame(fr *frame) {
	defer func() {
		if fr.block == nil {
			return // normal return
		}
		r := recover()
		if pa, ok := r.(pathAbort); ok {
			panic(pa)
		}
		if re, ok := r.(runtime.Error); ok {
			// a host fault while executing target code: treated as the
			// corresponding target fault, flagged so that only a native
			// replay can confirm it.
			fr.i.path.Notes["host fault mapped to target panic: "+re.Error()]++
			buf := make([]byte, 2048)
			buf = buf[:runtime.Stack(buf, false)]
			fr.i.path.Notes["host fault stack: "+firstFrames(string(buf))]++
			r = runtimePanic{re.Error()}
		}
		if s, ok := r.(string); ok {
			// interpreter-internal panic message
			panic(pathAbort{abortEngine, s + " in " + fr.fn.String()})
		}
		fr.panicking = true
		fr.panic = r
		fr.runDefers()
		fr.block = fr.fn.Recover
		if fr.block == nil {
			// recovered in a function without named results: zero values
			res := fr.fn.Signature.Results()
			switch res.Len() {
			case 0:
				fr.result = nil
			default:
				fr.result = zero(res)
			}
		}
	}()

	p := fr.i.path
	for {
		nonPhis := executePhis(fr)
		for _, instr := range nonPhis {
			p.Steps++
			if p.Steps > p.MaxSteps {
				panic(pathAbort{abortBudget, "step budget exhausted in " + fr.fn.String()})
			}
			// a single path may not outlive the harness's wall-clock budget
			// either (slow solver answers inside a loop that never ends)
			if p.Steps&1023 == 0 && !p.WallDeadline.IsZero() && time.Now().After(p.WallDeadline) {
				panic(pathAbort{abortBudget, "wall-clock budget exhausted in " + fr.fn.String()})
			}
			if visitInstr(fr, instr) == kReturn {
				return
			}
		}
	}
}

func firstFrames(s string) string {
	lines := strings.Split(s, "\n")
	var keep []string
	for _, l := range lines {
		l = strings.TrimSpace(l)
		if strings.HasPrefix(l, "zsym/interp.") {
			if k := strings.Index(l, "("); k > 0 {
				l = l[:k]
			}
			keep = append(keep, strings.TrimPrefix(l, "zsym/interp."))
			if len(keep) >= 6 {
				break
			}
		}
	}
	return strings.Join(keep, "<")
}

// doRecover implements the recover() built-in.
func doRecover(caller *frame) value {
	if caller != nil && !caller.panicking &&
		caller.caller != nil && caller.caller.panicking {
		caller.caller.panicking = false
		p := caller.caller.panic
		caller.caller.panic = nil
		switch p := p.(type) {
		case targetPanic:
			return p.v
		case runtimePanic:
			return iface{caller.i.world.runtimeErrorString, p.msg}
		default:
			panic(pathAbort{abortEngine, fmt.Sprintf("unexpected panic type %T in target call to recover(): %v", p, p)})
		}
	}
	return iface{}
}

// boundIntMake resolves a make() size.
func (i *interpreter) boundIntMake(v value, max int64) int {
	if s, ok := v.(*Sym); ok {
		_ = s
		return int(i.boundIntRange(v, 0, 64, "makeslice: len out of range"))
	}
	x := asInt64(v)
	if x < 0 || x > max {
		panic(goPanic("runtime error: makeslice: len out of range"))
	}
	return int(x)
}

// boundIntRange decides lo<=v<=hi for a symbolic int and concretises it;
// values outside raise the Go panic msg.  (hi is a modelling cap for sizes:
// larger symbolic sizes abort the path as unsupported rather than panic.)
func (i *interpreter) boundIntRange(v value, lo, hi int64, msg string) int64 {
	s := v.(*Sym)
	b := i.path.B
	w, _, _ := intInfo(s.K)
	if i.decideT(b.BVBin(smtSlt, s.T, b.BVC(w, uint64(lo)))) {
		panic(goPanic("runtime error: " + msg))
	}
	if i.decideT(b.BVBin(smtSlt, b.BVC(w, uint64(hi)), s.T)) {
		panic(pathAbort{abortUnsupported, "symbolic size above modelling cap"})
	}
	return i.concretizeInt(v, lo, hi)
}

func (i *interpreter) doGo(fr *frame, instr *ssa.Go, fn value, args []value) {
	switch i.goMode {
	case goModeDefer:
		i.pendingGo = append(i.pendingGo, pendingGo{fn, args})
	default:
		// run the goroutine body inline (sequentialised)
		call(i, nil, instr.Pos(), fn, args)
	}
}

const (
	goModeInline = 0
	goModeDefer  = 1
)

func (i *interpreter) doSelect(fr *frame, instr *ssa.Select) value {
	if i.selectFn == nil {
		panic(pathAbort{abortUnsupported, "select without harness oracle"})
	}
	// harness oracle: func(nstates int) (chosen int, payload interface{})
	r := call(i, fr, instr.Pos(), i.selectFn, []value{len(instr.States)}).(tuple)
	chosen := int(asInt64(r[0]))
	if chosen < 0 {
		panic(pathAbort{abortDone, "select oracle ended the run"})
	}
	out := tuple{chosen, true}
	for k, st := range instr.States {
		if st.Dir == types.RecvOnly {
			et := st.Chan.Type().Underlying().(*types.Chan).Elem()
			if k == chosen {
				pv := r[1].(iface)
				out = append(out, pv.v)
			} else {
				out = append(out, zero(et))
			}
		}
	}
	return out
}
