package interp

// Models of foreign functions for symbolic arguments.  Each model is exact on
// the domain it accepts (checked by the conformance runs) or returns an
// uninterpreted application / opaque text and flags the path imprecise.

import (
	"fmt"
	"go/token"
	"go/types"
	"math"
	"strings"

	"zsym/smt"
)

type ffiModel func(i *interpreter, fr *frame, args []value) (value, bool)

var ffiModels = map[string]ffiModel{}

// opaqueSeg is a run of unknown characters inside a symbolic string (text
// produced by foreign formatting of symbolic numbers).  Only concatenation and
// identity comparison are supported on it.
type opaqueSeg struct {
	id   string // identity: same verb applied to the same term renders the same text
	desc string
}

func fpUnaryModel(op smt.Op, mode int) ffiModel {
	return func(i *interpreter, fr *frame, args []value) (value, bool) {
		s, ok := args[0].(*Sym)
		if !ok {
			return nil, false
		}
		b := i.path.B
		if op == smt.OFPRti {
			return mkScalar(b.FPRti(mode, s.T), types.Float64), true
		}
		k := types.Float64
		if op == smt.OFPIsNaN {
			k = types.Bool
		}
		return mkScalar(b.FPUn(op, s.T), k), true
	}
}

func init() {
	ffiModels["math.Floor"] = fpUnaryModel(smt.OFPRti, 1)
	ffiModels["math.Ceil"] = fpUnaryModel(smt.OFPRti, 2)
	ffiModels["math.Trunc"] = fpUnaryModel(smt.OFPRti, 3)
	ffiModels["math.RoundToEven"] = fpUnaryModel(smt.OFPRti, 0)
	ffiModels["math.Sqrt"] = fpUnaryModel(smt.OFPSqrt, 0)
	ffiModels["math.Abs"] = fpUnaryModel(smt.OFPAbs, 0)
	ffiModels["math.IsNaN"] = fpUnaryModel(smt.OFPIsNaN, 0)
	ffiModels["math.IsInf"] = func(i *interpreter, fr *frame, args []value) (value, bool) {
		s, ok := args[0].(*Sym)
		if !ok {
			return nil, false
		}
		b := i.path.B
		sign := asInt64(args[1])
		inf := b.FPUn(smt.OFPIsInf, s.T)
		switch {
		case sign > 0:
			inf = b.And(inf, b.FPBin(smt.OFPLt, b.FPC(0), s.T))
		case sign < 0:
			inf = b.And(inf, b.FPBin(smt.OFPLt, s.T, b.FPC(0)))
		}
		return mkScalar(inf, types.Bool), true
	}
	ffiModels["math.Float64bits"] = func(i *interpreter, fr *frame, args []value) (value, bool) {
		s, ok := args[0].(*Sym)
		if !ok {
			return nil, false
		}
		// fresh bit-vector tied to the float by (= x (to_fp bits)); NaN keeps
		// an arbitrary payload, as on hardware.
		b := i.path.B
		v := b.Var(fmt.Sprintf("f64bits_%d", s.T.ID), smt.BV64)
		i.path.AssumeT(b.Eq(b.BitsToFP(smt.FP64, v), s.T))
		return mkScalar(v, types.Uint64), true
	}
	ffiModels["math.Float64frombits"] = func(i *interpreter, fr *frame, args []value) (value, bool) {
		s, ok := args[0].(*Sym)
		if !ok {
			return nil, false
		}
		return mkScalar(i.path.B.BitsToFP(smt.FP64, s.T), types.Float64), true
	}
	ffiModels["math.Mod"] = func(i *interpreter, fr *frame, args []value) (value, bool) {
		if !isSym(args[0]) && !isSym(args[1]) {
			return nil, false
		}
		// exact: fmod(x,y) from the IEEE remainder of the magnitudes
		//   r = rem(|x|,|y|) in [-|y|/2, |y|/2];  r < 0 => r + |y| (exactly representable: it is fmod)
		//   the result carries the sign of x; NaN / inf / zero cases follow fp.rem
		b := i.path.B
		x, y := i.term(args[0]), i.term(args[1])
		ax, ay := b.FPUn(smt.OFPAbs, x), b.FPUn(smt.OFPAbs, y)
		r := b.FPBin(smt.OFPRem, ax, ay)
		r2 := b.Ite(b.FPBin(smt.OFPLt, r, b.FPC(0)), b.FPBin(smt.OFPAdd, r, ay), r)
		neg := b.Or(b.FPBin(smt.OFPLt, x, b.FPC(0)), b.Eq(x, b.FPC(math.Copysign(0, -1))))
		return mkScalar(b.Ite(neg, b.FPUn(smt.OFPNeg, r2), r2), types.Float64), true
	}
	ffiModels["math.Pow"] = func(i *interpreter, fr *frame, args []value) (value, bool) {
		if !isSym(args[0]) && !isSym(args[1]) {
			return nil, false
		}
		b := i.path.B
		i.path.Imprecise("math.Pow uninterpreted")
		return mkScalar(b.App("uf_math_Pow", smt.FP64, i.term(args[0]), i.term(args[1])), types.Float64), true
	}

	ffiModels["strconv.ParseFloat"] = modelParseFloat
	ffiModels["strconv.ParseInt"] = modelParseInt
	ffiModels["strconv.Atoi"] = func(i *interpreter, fr *frame, args []value) (value, bool) {
		r, ok := modelParseInt(i, fr, []value{args[0], int(10), int(0)})
		if !ok {
			return nil, false
		}
		tu := r.(tuple)
		return tuple{conv(i, types.Typ[types.Int], types.Typ[types.Int64], tu[0]), tu[1]}, true
	}
	ffiModels["strings.Join"] = func(i *interpreter, fr *frame, args []value) (value, bool) {
		elems := args[0].([]value)
		if !anySymbolic(elems) && !anySymbolic(args[1:2]) {
			return nil, false
		}
		var out []value
		sep := runesOf(args[1])
		for k, e := range elems {
			if k > 0 {
				out = append(out, sep...)
			}
			out = append(out, runesOf(e)...)
		}
		return mkStr(out), true
	}
	ffiModels["strings.Repeat"] = func(i *interpreter, fr *frame, args []value) (value, bool) {
		if !anySymbolic(args) {
			if n := asInt64(args[1]); n < 0 {
				panic(goPanic("strings: negative Repeat count"))
			}
			return nil, false
		}
		var n int64
		if s, ok := args[1].(*Sym); ok {
			b := i.path.B
			if i.decideT(b.BVBin(smt.OBVSlt, s.T, b.BVC(64, 0))) {
				panic(goPanic("strings: negative Repeat count"))
			}
			n = i.boundIntRange(args[1], 0, 64, "repeat")
		} else {
			n = asInt64(args[1])
			if n < 0 {
				panic(goPanic("strings: negative Repeat count"))
			}
		}
		var out []value
		r := runesOf(args[0])
		for k := int64(0); k < n; k++ {
			out = append(out, r...)
		}
		return mkStr(out), true
	}
	ffiModels["strings.HasPrefix"] = func(i *interpreter, fr *frame, args []value) (value, bool) {
		if !anySymbolic(args) {
			return nil, false
		}
		s, p := runesOf(args[0]), runesOf(args[1])
		if len(p) > len(s) {
			return false, true
		}
		return i.strEq(mkStr(s[:len(p)]), mkStr(p)), true
	}
	ffiModels["strings.HasSuffix"] = func(i *interpreter, fr *frame, args []value) (value, bool) {
		if !anySymbolic(args) {
			return nil, false
		}
		s, p := runesOf(args[0]), runesOf(args[1])
		if len(p) > len(s) {
			return false, true
		}
		return i.strEq(mkStr(s[len(s)-len(p):]), mkStr(p)), true
	}
	ffiModels["strings.TrimPrefix"] = func(i *interpreter, fr *frame, args []value) (value, bool) {
		if !anySymbolic(args) {
			return nil, false
		}
		s, p := runesOf(args[0]), runesOf(args[1])
		if len(p) > len(s) {
			return args[0], true
		}
		if i.decide(i.strEq(mkStr(s[:len(p)]), mkStr(p))) {
			return mkStr(s[len(p):]), true
		}
		return args[0], true
	}
	ffiModels["strings.TrimLeft"] = func(i *interpreter, fr *frame, args []value) (value, bool) {
		if !anySymbolic(args) {
			return nil, false
		}
		cut, ok := args[1].(string)
		if !ok {
			panic(pathAbort{abortUnsupported, "TrimLeft with symbolic cutset"})
		}
		rs := runesOf(args[0])
		k := 0
		for k < len(rs) {
			in := false
			for _, c := range cut {
				if i.decide(equalsV(i, types.Typ[types.Int32], rs[k], c)) {
					in = true
					break
				}
			}
			if !in {
				break
			}
			k++
		}
		return mkStr(rs[k:]), true
	}
	ffiModels["strings.Compare"] = func(i *interpreter, fr *frame, args []value) (value, bool) {
		if !anySymbolic(args) {
			return nil, false
		}
		if i.decide(i.strEq(args[0], args[1])) {
			return int(0), true
		}
		if i.decide(i.strLess(args[0], args[1], false)) {
			return int(-1), true
		}
		return int(1), true
	}
	ffiModels["strings.Contains"] = func(i *interpreter, fr *frame, args []value) (value, bool) {
		if !anySymbolic(args) {
			return nil, false
		}
		return i.strIndex(args[0], args[1]) >= 0, true
	}
	ffiModels["strings.Index"] = func(i *interpreter, fr *frame, args []value) (value, bool) {
		if !anySymbolic(args) {
			return nil, false
		}
		k := i.strIndex(args[0], args[1])
		if k < 0 {
			return int(-1), true
		}
		// byte offset of rune position k
		var off value = int(0)
		for _, r := range runesOf(args[0])[:k] {
			off = i.addInt(off, i.runeLen(r))
		}
		return off, true
	}
	ffiModels["strings.Replace"] = func(i *interpreter, fr *frame, args []value) (value, bool) {
		if !anySymbolic(args) {
			return nil, false
		}
		return i.strReplace(args[0], args[1], args[2], asInt64(args[3])), true
	}
	ffiModels["strings.ReplaceAll"] = func(i *interpreter, fr *frame, args []value) (value, bool) {
		if !anySymbolic(args) {
			return nil, false
		}
		return i.strReplace(args[0], args[1], args[2], -1), true
	}
	ffiModels["strings.Split"] = func(i *interpreter, fr *frame, args []value) (value, bool) {
		if !anySymbolic(args) {
			return nil, false
		}
		s, sep := runesOf(args[0]), runesOf(args[1])
		var parts []value
		if len(sep) == 0 {
			for _, r := range s {
				parts = append(parts, mkStr([]value{r}))
			}
			return parts, true
		}
		start := 0
		k := 0
		for k+len(sep) <= len(s) {
			hasOpaque := false
			for _, e := range s[k : k+len(sep)] {
				if _, isO := e.(opaqueSeg); isO {
					hasOpaque = true
				}
			}
			if hasOpaque {
				i.path.Imprecise("Split: formatted number assumed not to contain the separator")
				k++
				continue
			}
			if i.decide(i.strEq(mkStr(s[k:k+len(sep)]), mkStr(sep))) {
				parts = append(parts, mkStrOpaque(s[start:k]))
				k += len(sep)
				start = k
			} else {
				k++
			}
		}
		parts = append(parts, mkStrOpaque(s[start:]))
		return parts, true
	}
	ffiModels["fmt.Sprintf"] = modelSprintf
	ffiModels["fmt.Errorf"] = func(i *interpreter, fr *frame, args []value) (value, bool) {
		if !anySymbolic(args) {
			return nil, false
		}
		// the message is display-only; keep the error a native one
		msg, _ := modelSprintf(i, fr, args)
		var text string
		switch m := msg.(type) {
		case string:
			text = m
		case *symStr:
			text = i.concretizeDisplay(m)
		}
		i.path.Imprecise("fmt.Errorf with symbolic argument: message rendered with placeholders")
		return i.ifaceFromNative(rv(fmt.Errorf("%s", text))), true
	}
	ffiModels["unicode/utf8.RuneCountInString"] = func(i *interpreter, fr *frame, args []value) (value, bool) {
		if s, ok := args[0].(*symStr); ok {
			return len(s.r), true
		}
		return nil, false
	}
	ffiModels["unicode/utf8.DecodeRune"] = func(i *interpreter, fr *frame, args []value) (value, bool) {
		p := args[0].([]value)
		if !anySymbolic(p) && len(p) <= 64 {
			return nil, false
		}
		return i.modelDecodeRune(p), true
	}
	ffiModels["unicode/utf8.DecodeRuneInString"] = func(i *interpreter, fr *frame, args []value) (value, bool) {
		s, ok := args[0].(*symStr)
		if !ok {
			return nil, false
		}
		if len(s.r) == 0 {
			return tuple{int32(0xFFFD), int(0)}, true
		}
		if _, isO := s.r[0].(opaqueSeg); isO {
			panic(pathAbort{abortUnsupported, "decoding opaque formatted text"})
		}
		return tuple{s.r[0], i.concreteRuneLen(s.r[0])}, true
	}
}

// strIndex returns the first rune position where sub occurs in s (forking), or -1.
func (i *interpreter) strIndex(sv, subv value) int {
	s, sub := runesOf(sv), runesOf(subv)
	for k := 0; k+len(sub) <= len(s); k++ {
		if i.decide(i.strEq(mkStr(s[k:k+len(sub)]), mkStr(sub))) {
			return k
		}
	}
	return -1
}

func (i *interpreter) strReplace(sv, oldv, newv value, n int64) value {
	s, old, nw := runesOf(sv), runesOf(oldv), runesOf(newv)
	if len(old) == 0 {
		panic(pathAbort{abortUnsupported, "strings.Replace with empty old on symbolic text"})
	}
	var out []value
	k := 0
	for k < len(s) {
		if n != 0 && k+len(old) <= len(s) && i.decide(i.strEq(mkStr(s[k:k+len(old)]), mkStr(old))) {
			out = append(out, nw...)
			k += len(old)
			if n > 0 {
				n--
			}
			continue
		}
		out = append(out, s[k])
		k++
	}
	return mkStr(out)
}

// modelParseFloat: the numeric value of a symbolic decimal is left to strconv
// (outside the claim): an uninterpreted function of the rune sequence.
func modelParseFloat(i *interpreter, fr *frame, args []value) (value, bool) {
	s, ok := args[0].(*symStr)
	if !ok {
		return nil, false
	}
	b := i.path.B
	ts := make([]*smt.Term, len(s.r))
	for k, r := range s.r {
		ts[k] = i.term(r)
	}
	name := fmt.Sprintf("uf_ParseFloat_%d", len(ts))
	val := b.App(name, smt.FP64, ts...)
	okT := b.App(name+"_ok", smt.Bool, ts...)
	i.path.Imprecise("strconv.ParseFloat uninterpreted")
	var errv value = iface{}
	if !i.decideT(okT) {
		errv = i.ifaceFromNative(rv(fmt.Errorf("strconv.ParseFloat: symbolic syntax error")))
	}
	return tuple{mkScalar(val, types.Float64), errv}, true
}

// modelParseInt is exact for base 10/16 on strings of digit characters (what
// the lexer hands over); anything else yields a syntax error like strconv.
func modelParseInt(i *interpreter, fr *frame, args []value) (value, bool) {
	s, ok := args[0].(*symStr)
	if !ok {
		return nil, false
	}
	base := asInt64(args[1])
	bits := asInt64(args[2])
	if bits == 0 {
		bits = 64
	}
	if base != 10 && base != 16 {
		panic(pathAbort{abortUnsupported, "ParseInt model: base"})
	}
	b := i.path.B
	synErr := func() value {
		return tuple{int64(0), i.ifaceFromNative(rv(fmt.Errorf("strconv.ParseInt: parsing symbolic: invalid syntax")))}
	}
	if len(s.r) == 0 {
		return synErr(), true
	}
	rs := s.r
	neg := false
	// optional sign
	if c, isC := rs[0].(int32); isC {
		if c == '+' || c == '-' {
			neg = c == '-'
			rs = rs[1:]
		}
	} else {
		t := i.term(rs[0])
		if i.decideT(b.Eq(t, b.BVC(32, '-'))) {
			neg = true
			rs = rs[1:]
		} else if i.decideT(b.Eq(t, b.BVC(32, '+'))) {
			rs = rs[1:]
		}
	}
	if len(rs) == 0 || len(rs) > 15 {
		if len(rs) == 0 {
			return synErr(), true
		}
		panic(pathAbort{abortUnsupported, "ParseInt model: more than 15 digits"})
	}
	acc := b.BVC(64, 0)
	for _, r := range rs {
		t := i.term(r)
		in := func(lo, hi rune) *smt.Term {
			return b.And(b.BVBin(smt.OBVSle, b.BVC(32, uint64(lo)), t), b.BVBin(smt.OBVSle, t, b.BVC(32, uint64(hi))))
		}
		var d *smt.Term
		t64 := b.Resize(t, 64, true)
		switch {
		case i.decideT(in('0', '9')):
			d = b.BVBin(smt.OBVSub, t64, b.BVC(64, '0'))
		case base == 16 && i.decideT(in('A', 'F')):
			d = b.BVBin(smt.OBVSub, t64, b.BVC(64, 'A'-10))
		case base == 16 && i.decideT(in('a', 'f')):
			d = b.BVBin(smt.OBVSub, t64, b.BVC(64, 'a'-10))
		case i.decideT(b.Eq(t, b.BVC(32, '_'))):
			panic(pathAbort{abortUnsupported, "ParseInt model: underscore"})
		default:
			return synErr(), true
		}
		acc = b.BVBin(smt.OBVAdd, b.BVBin(smt.OBVMul, acc, b.BVC(64, uint64(base))), d)
	}
	// range check for bitSize
	max := uint64(1)<<uint(bits-1) - 1
	lim := max
	if neg {
		lim = max + 1
	}
	if i.decideT(b.BVBin(smt.OBVUlt, b.BVC(64, lim), acc)) {
		var v int64 = int64(max)
		if neg {
			v = -int64(max) - 1
		}
		return tuple{v, i.ifaceFromNative(rv(fmt.Errorf("strconv.ParseInt: parsing symbolic: value out of range")))}, true
	}
	if neg {
		acc = b.BVNeg(acc)
	}
	return tuple{mkScalar(acc, types.Int64), iface{}}, true
}

// modelSprintf splices symbolic strings exactly (%s %v %q-less) and renders
// symbolic numbers as opaque segments.
func modelSprintf(i *interpreter, fr *frame, args []value) (value, bool) {
	if !anySymbolic(args) {
		return nil, false
	}
	format, ok := args[0].(string)
	if !ok {
		// a symbolic text used as the format itself (fmt.Errorf(userText)):
		// without arguments and without a % it is copied verbatim
		if ss, isSym := args[0].(*symStr); isSym && (args[1] == nil || len(args[1].([]value)) == 0) {
			b := i.path.B
			for _, r := range ss.r {
				switch c := r.(type) {
				case rune:
					if c == '%' {
						panic(pathAbort{abortUnsupported, "Sprintf with symbolic format containing %"})
					}
				case *Sym:
					if i.decideT(b.Eq(c.T, b.BVC(c.T.Sort.W, '%'))) {
						panic(pathAbort{abortUnsupported, "Sprintf with symbolic format containing %"})
					}
				default:
					panic(pathAbort{abortUnsupported, "Sprintf with symbolic format"})
				}
			}
			return ss, true
		}
		panic(pathAbort{abortUnsupported, "Sprintf with symbolic format"})
	}
	var vargs []value
	if args[1] != nil {
		vargs = args[1].([]value)
	}
	var out []value
	emit := func(s string) {
		for _, r := range s {
			out = append(out, r)
		}
	}
	argi := 0
	k := 0
	for k < len(format) {
		c := format[k]
		if c != '%' {
			// copy one rune
			r, n := decodeRuneStr(format[k:])
			out = append(out, r)
			k += n
			continue
		}
		// parse verb
		j := k + 1
		for j < len(format) && strings.ContainsRune("+-# 0123456789.*", rune(format[j])) {
			j++
		}
		if j >= len(format) {
			emit(format[k:])
			break
		}
		verb := format[k : j+1]
		k = j + 1
		if format[j] == '%' {
			emit("%")
			continue
		}
		if strings.Contains(verb, "*") {
			panic(pathAbort{abortUnsupported, "Sprintf model: * width"})
		}
		if argi >= len(vargs) {
			emit("%!" + string(format[j]) + "(MISSING)")
			continue
		}
		a := vargs[argi]
		argi++
		itf, _ := a.(iface)
		switch x := itf.v.(type) {
		case *symStr:
			if verb == "%s" || verb == "%v" {
				out = append(out, x.r...)
			} else {
				i.path.Imprecise("Sprintf verb " + verb + " on symbolic string")
				out = append(out, opaqueSeg{fmt.Sprintf("u%d", i.nextOpaque()), verb})
			}
		case *Sym:
			if verb == "%c" {
				if _, _, isInt := intInfo(x.K); isInt {
					out = append(out, i.normRune(x))
					break
				}
			}
			i.path.Imprecise("Sprintf of symbolic number")
			out = append(out, opaqueSeg{fmt.Sprintf("%s|%d", verb, i.term(x).ID), verb})
		default:
			if anySymbolic([]value{itf.v}) {
				i.path.Imprecise("Sprintf of value containing symbolic data")
				out = append(out, opaqueSeg{fmt.Sprintf("u%d", i.nextOpaque()), verb})
				break
			}
			nv := i.toNative(a, reflect_anyT)
			emit(fmt.Sprintf(verb, nv.Interface()))
		}
	}
	if argi < len(vargs) {
		emit("%!(EXTRA)")
	}
	return mkStrOpaque(out), true
}

func decodeRuneStr(s string) (int32, int) {
	for _, r := range s {
		n := len(string(r))
		if r == 0xFFFD && (len(s) < 3 || s[:3] != "�") {
			return r, 1
		}
		return r, n
	}
	return 0, 0
}

func (i *interpreter) nextOpaque() int {
	i.opaqueN++
	return i.opaqueN
}

// mkStrOpaque is mkStr that tolerates opaque segments.
func mkStrOpaque(r []value) value {
	for _, x := range r {
		if _, ok := x.(opaqueSeg); ok {
			return &symStr{r: append([]value(nil), r...)}
		}
	}
	return mkStr(r)
}

var _ = math.Floor
var _ = token.ADD

// modelDecodeRune mirrors unicode/utf8.DecodeRune on a byte slice whose
// elements may be symbolic (forks on the class of the lead byte and on the
// validity of the continuation bytes; the rune value stays symbolic).
func (i *interpreter) modelDecodeRune(p []value) value {
	b := i.path.B
	const runeError = int32(0xFFFD)
	if len(p) == 0 {
		return tuple{runeError, int(0)}
	}
	t := func(v value) *smt.Term { return b.Resize(i.term(v), 32, false) }
	c := func(x uint64) *smt.Term { return b.BVC(32, x) }
	inr := func(x *smt.Term, lo, hi uint64) *smt.Term {
		return b.And(b.BVBin(smt.OBVUle, c(lo), x), b.BVBin(smt.OBVUle, x, c(hi)))
	}
	p0 := t(p[0])
	if i.decideT(b.BVBin(smt.OBVUlt, p0, c(0x80))) {
		return tuple{mkScalar(p0, types.Int32), int(1)}
	}
	bad := tuple{runeError, int(1)}
	and := func(x *smt.Term, m uint64) *smt.Term { return b.BVBin(smt.OBVAnd, x, c(m)) }
	shl := func(x *smt.Term, n uint64) *smt.Term { return b.BVBin(smt.OBVShl, x, c(n)) }
	or := func(x, y *smt.Term) *smt.Term { return b.BVBin(smt.OBVOr, x, y) }
	switch {
	case i.decideT(inr(p0, 0xC2, 0xDF)):
		if len(p) < 2 {
			return bad
		}
		p1 := t(p[1])
		if !i.decideT(inr(p1, 0x80, 0xBF)) {
			return bad
		}
		return tuple{mkScalar(or(shl(and(p0, 0x1F), 6), and(p1, 0x3F)), types.Int32), int(2)}
	case i.decideT(inr(p0, 0xE0, 0xEF)):
		if len(p) < 3 {
			return bad
		}
		p1, p2 := t(p[1]), t(p[2])
		lo, hi := c(0x80), c(0xBF)
		lo = b.Ite(b.Eq(p0, c(0xE0)), c(0xA0), lo)
		hi = b.Ite(b.Eq(p0, c(0xED)), c(0x9F), hi)
		ok1 := b.And(b.BVBin(smt.OBVUle, lo, p1), b.BVBin(smt.OBVUle, p1, hi))
		if !i.decideT(b.And(ok1, inr(p2, 0x80, 0xBF))) {
			return bad
		}
		return tuple{mkScalar(or(or(shl(and(p0, 0x0F), 12), shl(and(p1, 0x3F), 6)), and(p2, 0x3F)), types.Int32), int(3)}
	case i.decideT(inr(p0, 0xF0, 0xF4)):
		if len(p) < 4 {
			return bad
		}
		p1, p2, p3 := t(p[1]), t(p[2]), t(p[3])
		lo, hi := c(0x80), c(0xBF)
		lo = b.Ite(b.Eq(p0, c(0xF0)), c(0x90), lo)
		hi = b.Ite(b.Eq(p0, c(0xF4)), c(0x8F), hi)
		ok1 := b.And(b.BVBin(smt.OBVUle, lo, p1), b.BVBin(smt.OBVUle, p1, hi))
		if !i.decideT(b.And(ok1, b.And(inr(p2, 0x80, 0xBF), inr(p3, 0x80, 0xBF)))) {
			return bad
		}
		r := or(or(shl(and(p0, 0x07), 18), shl(and(p1, 0x3F), 12)), or(shl(and(p2, 0x3F), 6), and(p3, 0x3F)))
		return tuple{mkScalar(r, types.Int32), int(4)}
	}
	return bad
}
