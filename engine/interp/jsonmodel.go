package interp

// Contract stub for encoding/json (reflection-heavy foreign code):
//   Marshal(plain)   succeeds with an opaque text J(plain) unless a float is
//                    non-finite (then an error), and is the real function
//                    whenever the value is fully concrete;
//   Unmarshal(J(p))  yields a structurally equal plain value whose objects are
//                    Go maps (iteration order: see SetMapOrder);
//   Unmarshal(text)  on concrete text is the real function.

import (
	"encoding/json"
	"fmt"
	"go/types"
	"reflect"
	"sort"

	"zsym/smt"
)

func containsSym(v value) bool {
	switch x := v.(type) {
	case *Sym, *symStr:
		return true
	case iface:
		return containsSym(x.v)
	case []value:
		for _, e := range x {
			if containsSym(e) {
				return true
			}
		}
	case *omap:
		if x != nil {
			for k := range x.keys {
				if containsSym(x.keys[k]) || containsSym(x.vals[k]) {
					return true
				}
			}
		}
	}
	return false
}

// plainToNative converts a concrete JSON-like interpreter value to native Go.
func (i *interpreter) plainToNative(v value) interface{} {
	switch x := v.(type) {
	case iface:
		if x.t == nil {
			return nil
		}
		return i.plainToNative(x.v)
	case []value:
		if x == nil {
			return []interface{}(nil)
		}
		out := make([]interface{}, len(x))
		for k, e := range x {
			out[k] = i.plainToNative(e)
		}
		return out
	case *omap:
		if x == nil {
			return map[string]interface{}(nil)
		}
		out := map[string]interface{}{}
		for k := range x.keys {
			out[x.keys[k].(string)] = i.plainToNative(x.vals[k])
		}
		return out
	case bool, float64, string, int, int64:
		return x
	}
	panic(unsupportedArg{fmt.Sprintf("json model: value %T", v)})
}

var (
	anyType      types.Type = types.NewInterfaceType(nil, nil)
	sliceAnyType types.Type = types.NewSlice(anyType)
	mapAnyType   types.Type = types.NewMap(types.Typ[types.String], anyType)
)

// nativeToPlain converts a native JSON value (as json.Unmarshal builds it)
// into interpreter values; object keys are inserted in sorted order.
func (i *interpreter) nativeToPlain(x interface{}) value {
	switch v := x.(type) {
	case nil:
		return iface{}
	case bool:
		return iface{types.Typ[types.Bool], v}
	case float64:
		return iface{types.Typ[types.Float64], v}
	case string:
		return iface{types.Typ[types.String], v}
	case []interface{}:
		out := make([]value, len(v))
		for k, e := range v {
			out[k] = i.nativeToPlain(e)
		}
		return iface{sliceAnyType, out}
	case map[string]interface{}:
		return iface{mapAnyType, i.nativeMapToPlain(v)}
	}
	panic(unsupportedArg{fmt.Sprintf("json model: native %T", x)})
}

func (i *interpreter) nativeMapToPlain(v map[string]interface{}) *omap {
	m := makeMap(types.Typ[types.String], 0).(*omap)
	var ks []string
	for k := range v {
		ks = append(ks, k)
	}
	sort.Strings(ks)
	for _, k := range ks {
		m.insert(i, k, i.nativeToPlain(v[k]))
	}
	return m
}

// copyPlain deep-copies a plain value (objects re-inserted in sorted key order).
func (i *interpreter) copyPlain(v value) value {
	switch x := v.(type) {
	case iface:
		return iface{x.t, i.copyPlain(x.v)}
	case []value:
		if x == nil {
			return x
		}
		out := make([]value, len(x))
		for k, e := range x {
			out[k] = i.copyPlain(e)
		}
		return out
	case *omap:
		if x == nil {
			return x
		}
		idx := make([]int, len(x.keys))
		for k := range idx {
			idx[k] = k
		}
		sort.Slice(idx, func(a, b int) bool { return x.keys[idx[a]].(string) < x.keys[idx[b]].(string) })
		m := makeMap(x.keyT, 0).(*omap)
		for _, k := range idx {
			m.insert(i, x.keys[k], i.copyPlain(x.vals[k]))
		}
		return m
	}
	return v
}

// nonFinite collects "some float in v is NaN or infinite" as a term.
func (i *interpreter) nonFinite(v value, acc *smt.Term) *smt.Term {
	b := i.path.B
	switch x := v.(type) {
	case iface:
		return i.nonFinite(x.v, acc)
	case []value:
		for _, e := range x {
			acc = i.nonFinite(e, acc)
		}
	case *omap:
		if x != nil {
			for _, e := range x.vals {
				acc = i.nonFinite(e, acc)
			}
		}
	case *Sym:
		if x.K == types.Float64 {
			acc = b.Or(acc, b.Or(b.FPUn(smt.OFPIsNaN, x.T), b.FPUn(smt.OFPIsInf, x.T)))
		}
	case float64:
		if x != x || x > 1.7976931348623157e308 || x < -1.7976931348623157e308 {
			acc = b.BoolC(true)
		}
	}
	return acc
}

func init() {
	ffiModels["encoding/json.Marshal"] = func(i *interpreter, fr *frame, args []value) (value, bool) {
		v := args[0]
		if !containsSym(v) {
			data, err := json.Marshal(i.plainToNative(v))
			var errv value = iface{}
			if err != nil {
				errv = i.ifaceFromNative(reflect.ValueOf(err))
			}
			out := make([]value, len(data))
			for k, c := range data {
				out[k] = c
			}
			if err != nil {
				out = nil
			}
			return tuple{out, errv}, true
		}
		bad := i.nonFinite(v, i.path.B.BoolC(false))
		if i.decideT(bad) {
			return tuple{[]value(nil), i.ifaceFromNative(reflect.ValueOf(fmt.Errorf("json: unsupported value: non-finite number")))}, true
		}
		i.jsonN++
		id := fmt.Sprintf("json|%d", i.jsonN)
		if i.jsonTokens == nil {
			i.jsonTokens = map[string]value{}
		}
		i.jsonTokens[id] = i.copyPlain(v)
		i.path.Imprecise("encoding/json.Marshal replaced by its contract (opaque text)")
		return tuple{[]value{opaqueSeg{id, "json text"}}, iface{}}, true
	}
	ffiModels["encoding/json.Unmarshal"] = func(i *interpreter, fr *frame, args []value) (value, bool) {
		data := args[0].([]value)
		target := args[1].(iface)
		ptr, ok := target.v.(*value)
		if !ok {
			panic(pathAbort{abortUnsupported, "json.Unmarshal target"})
		}
		if len(data) == 1 {
			if tok, isTok := data[0].(opaqueSeg); isTok {
				plain, known := i.jsonTokens[tok.id]
				if !known {
					panic(pathAbort{abortUnsupported, "json.Unmarshal of unknown opaque text"})
				}
				cp := i.copyPlain(plain)
				if itf, isI := cp.(iface); isI {
					cp = itf.v
				}
				if m, isMap := cp.(*omap); isMap {
					*ptr = m
					return iface{}, true
				}
				return i.ifaceFromNative(reflect.ValueOf(fmt.Errorf("json: cannot unmarshal non-object into Go value of type map[string]interface {}"))), true
			}
		}
		raw := make([]byte, len(data))
		for k, c := range data {
			cb, isB := c.(uint8)
			if !isB {
				panic(pathAbort{abortUnsupported, "json.Unmarshal of symbolic bytes"})
			}
			raw[k] = cb
		}
		native := map[string]interface{}{}
		if err := json.Unmarshal(raw, &native); err != nil {
			return i.ifaceFromNative(reflect.ValueOf(err)), true
		}
		*ptr = i.nativeMapToPlain(native)
		return iface{}, true
	}
}
