package interp

// Operations rewritten for the symbolic fork: explicit Go run-time checks
// (so faults are events the engine sees), capacity-faithful slices, ordered
// maps, symbolic strings.

import (
	"bytes"
	"fmt"
	"go/token"
	"go/types"
	"os"
	"strings"

	"golang.org/x/tools/go/ssa"
	"zsym/smt"
)

func mustDeref(t types.Type) types.Type {
	if p, ok := t.Underlying().(*types.Pointer); ok {
		return p.Elem()
	}
	panic(fmt.Sprintf("mustDeref: not a pointer: %v", t))
}

func freshSliceT(elems []value, elemSize int64, z value) []value {
	out := freshSlice(elems, elemSize)
	full := out[:cap(out)]
	for k := len(out); k < len(full); k++ {
		full[k] = z
	}
	return out
}

// boundInt resolves a slice bound: concrete int64, or symbolic after deciding
// lo <= v <= hi (Go-style panic on the other side).
func (i *interpreter) boundInt(v value, lo, hi int64, what string) int64 {
	s, ok := v.(*Sym)
	if !ok {
		x := asInt64(v)
		if x < lo || x > hi {
			panic(goPanic(fmt.Sprintf("runtime error: slice bounds out of range [%s %d] (allowed %d..%d)", what, x, lo, hi)))
		}
		return x
	}
	b := i.path.B
	_, signed, _ := intInfo(s.K)
	t64 := b.Resize(s.T, 64, signed)
	in := b.And(b.BVBin(smt.OBVSle, b.BVC(64, uint64(lo)), t64), b.BVBin(smt.OBVSle, t64, b.BVC(64, uint64(hi))))
	if !i.decideT(in) {
		panic(goPanic(fmt.Sprintf("runtime error: slice bounds out of range [%s symbolic] (allowed %d..%d)", what, lo, hi)))
	}
	return i.concretizeInt(v, lo, hi)
}

// slice returns x[lo:hi:max].  Any of lo, hi and max may be nil.
func slice(i *interpreter, x, lo, hi, max value) value {
	switch x := x.(type) {
	case string:
		n := int64(len(x))
		h := n
		if hi != nil {
			h = i.boundInt(hi, 0, n, "hi")
		}
		l := int64(0)
		if lo != nil {
			l = i.boundInt(lo, 0, h, "lo")
		}
		return x[l:h]
	case *symStr:
		total := int64(0)
		for _, rr := range x.r {
			if _, isO := rr.(opaqueSeg); isO {
				panic(pathAbort{abortUnsupported, "byte slicing of opaque formatted text"})
			}
			total += int64(i.concreteRuneLen(rr))
		}
		h := total
		if hi != nil {
			h = i.boundInt(hi, 0, total, "hi")
		}
		l := int64(0)
		if lo != nil {
			l = i.boundInt(lo, 0, h, "lo")
		}
		return i.strSlice(x, l, h, true)
	case []value:
		c := int64(cap(x))
		m := c
		if max != nil {
			m = i.boundInt(max, 0, c, "max")
		}
		h := int64(len(x))
		if hi != nil {
			h = i.boundInt(hi, 0, m, "hi")
		} else if h > m {
			panic(goPanic("runtime error: slice bounds out of range"))
		}
		l := int64(0)
		if lo != nil {
			l = i.boundInt(lo, 0, h, "lo")
		}
		if x == nil {
			return x
		}
		return x[l:h:m]
	case *value: // *array
		if x == nil {
			panic(goPanic("runtime error: invalid memory address or nil pointer dereference"))
		}
		a := (*x).(array)
		c := int64(len(a))
		m := c
		if max != nil {
			m = i.boundInt(max, 0, c, "max")
		}
		h := c
		if hi != nil {
			h = i.boundInt(hi, 0, m, "hi")
		}
		l := int64(0)
		if lo != nil {
			l = i.boundInt(lo, 0, h, "lo")
		}
		return []value(a)[l:h:m]
	}
	panic(fmt.Sprintf("slice: unexpected X type: %T", x))
}

// lookup returns x[idx] where x is a map.
func lookup(i *interpreter, instr *ssa.Lookup, x, idx value) value {
	m, ok := x.(*omap)
	if !ok {
		panic(fmt.Sprintf("unexpected x type in Lookup: %T", x))
	}
	v, found := m.lookup(i, idx)
	if !found {
		v = zero(instr.X.Type().Underlying().(*types.Map).Elem())
	}
	if instr.CommaOk {
		return tuple{v, found}
	}
	return v
}

// callBuiltin interprets a call to builtin fn with arguments args.
func callBuiltin(caller *frame, callpos token.Pos, fn *ssa.Builtin, args []value) value {
	i := caller.i
	switch fn.Name() {
	case "append":
		if len(args) == 1 {
			return args[0]
		}
		st := fn.Type().(*types.Signature).Params().At(0).Type().Underlying().(*types.Slice)
		elemT := st.Elem()
		esz := i.sizes.Sizeof(elemT)
		var elems []value
		switch a := args[1].(type) {
		case string:
			for k := 0; k < len(a); k++ {
				elems = append(elems, a[k])
			}
		case *symStr:
			elems = i.strBytes(a)
		case []value:
			elems = a
		default:
			panic(fmt.Sprintf("append: bad arg %T", a))
		}
		s0 := args[0].([]value)
		if len(elems) == 0 {
			return s0
		}
		n := len(s0) + len(elems)
		if n <= cap(s0) {
			out := s0[:n]
			for k, e := range elems {
				out[len(s0)+k] = copyVal(elemT, e)
			}
			return out
		}
		nc := growCap(cap(s0), n, esz)
		out := make([]value, n, nc)
		copy(out, s0)
		for k, e := range elems {
			out[len(s0)+k] = copyVal(elemT, e)
		}
		full := out[:nc]
		for k := n; k < nc; k++ {
			full[k] = zero(elemT)
		}
		return out

	case "copy": // copy([]T, []T) int or copy([]byte, string) int
		src := args[1]
		if isStr(src) {
			src = i.strBytes(src)
		}
		dst := args[0].([]value)
		s := src.([]value)
		n := len(dst)
		if len(s) < n {
			n = len(s)
		}
		elemT := fn.Type().(*types.Signature).Params().At(0).Type().Underlying().(*types.Slice).Elem()
		tmp := make([]value, n)
		for k := 0; k < n; k++ {
			tmp[k] = copyVal(elemT, s[k])
		}
		copy(dst, tmp)
		return n

	case "close": // close(chan T)
		close(args[0].(chan value))
		return nil

	case "delete": // delete(map[K]value, K)
		args[0].(*omap).delete(i, args[1])
		return nil

	case "print", "println": // print(any, ...)
		ln := fn.Name() == "println"
		var buf bytes.Buffer
		for k, arg := range args {
			if k > 0 && ln {
				buf.WriteRune(' ')
			}
			buf.WriteString(toString(arg))
		}
		if ln {
			buf.WriteRune('\n')
		}
		os.Stderr.Write(buf.Bytes())
		return nil

	case "len":
		switch x := args[0].(type) {
		case string:
			return len(x)
		case *symStr:
			return i.strLen(x)
		case array:
			return len(x)
		case *value:
			return len((*x).(array))
		case []value:
			return len(x)
		case *omap:
			return x.len()
		case chan value:
			return len(x)
		default:
			panic(fmt.Sprintf("len: illegal operand: %T", x))
		}

	case "cap":
		switch x := args[0].(type) {
		case array:
			return cap(x)
		case *value:
			return cap((*x).(array))
		case []value:
			return cap(x)
		case chan value:
			return cap(x)
		default:
			panic(fmt.Sprintf("cap: illegal operand: %T", x))
		}

	case "min":
		return foldLeft(min, args)
	case "max":
		return foldLeft(max, args)

	case "panic":
		panic(targetPanic{args[0]})

	case "recover":
		return doRecover(caller)

	case "ssa:wrapnilchk":
		recv := args[0]
		if p, ok := recv.(*value); ok && p == nil {
			recvType := args[1]
			methodName := args[2]
			panic(goPanic(fmt.Sprintf("value method (%s).%s called using nil *%s pointer",
				recvType, methodName, recvType)))
		}
		return recv

	case "ssa:deferstack":
		return &caller.defers
	}

	panic("unknown built-in: " + fn.Name())
}

// copyVal copies aggregate values (struct/array) so that storing them in a
// slice element does not alias the source.
func copyVal(t types.Type, v value) value {
	switch v.(type) {
	case structure, array:
		return load(t, &v)
	}
	return v
}

func rangeIter(i *interpreter, x value, t types.Type) iter {
	switch x := x.(type) {
	case *omap:
		return newOmapIter(i, x)
	case string:
		return &stringIter{Reader: strings.NewReader(x)}
	case *symStr:
		return &symStrIter{i: i, s: x, off: int(0)}
	}
	panic(fmt.Sprintf("cannot range over %T", x))
}

// convSym handles conversions involving symbolic scalars and strings.
func (i *interpreter) convSym(utDst, utSrc types.Type, x value) (value, bool) {
	switch x := x.(type) {
	case *Sym:
		if bd, ok := utDst.(*types.Basic); ok {
			if bd.Kind() == types.String {
				return mkStr([]value{i.normRune(x)}), true
			}
			return i.symConv(bd.Kind(), x), true
		}
	case *symStr:
		switch d := utDst.(type) {
		case *types.Basic:
			if d.Kind() == types.String {
				return x, true
			}
		case *types.Slice:
			switch d.Elem().Underlying().(*types.Basic).Kind() {
			case types.Rune:
				return freshSliceT(x.r, 4, int32(0)), true
			case types.Byte:
				if len(x.r) == 1 {
					if tok, isTok := x.r[0].(opaqueSeg); isTok {
						return []value{tok}, true // opaque text keeps its identity
					}
				}
				return freshSliceT(i.strBytes(x), 1, uint8(0)), true
			}
		}
	case []value:
		if bd, ok := utDst.(*types.Basic); ok && bd.Kind() == types.String {
			ek := utSrc.(*types.Slice).Elem().Underlying().(*types.Basic).Kind()
			anySym := false
			for _, e := range x {
				if isSym(e) {
					anySym = true
					break
				}
				if tok, isTok := e.(opaqueSeg); isTok && len(x) == 1 {
					return &symStr{r: []value{tok}}, true
				}
			}
			if !anySym {
				return nil, false
			}
			switch ek {
			case types.Rune:
				out := make([]value, len(x))
				for k, e := range x {
					out[k] = i.normRune(e)
				}
				return mkStr(out), true
			case types.Byte:
				panic(pathAbort{abortUnsupported, "string(symbolic []byte)"})
			}
		}
	}
	return nil, false
}

// equalsV returns x == y as a bool value (possibly symbolic).
func equalsV(i *interpreter, t types.Type, x, y value) value {
	if isSym(x) || isSym(y) {
		return i.symBinop(token.EQL, x, y)
	}
	switch x := x.(type) {
	case *symStr:
		return i.strEq(x, y)
	case string:
		if _, ok := y.(*symStr); ok {
			return i.strEq(x, y)
		}
		return x == y.(string)
	case structure:
		ys := y.(structure)
		st := t.Underlying().(*types.Struct)
		var acc value = true
		for k := range x {
			if f := st.Field(k); !f.Anonymous() && f.Name() == "_" {
				continue
			}
			acc = i.andV(acc, equalsV(i, st.Field(k).Type(), x[k], ys[k]))
			if acc == false {
				return false
			}
		}
		return acc
	case array:
		ya := y.(array)
		et := t.Underlying().(*types.Array).Elem()
		var acc value = true
		for k := range x {
			acc = i.andV(acc, equalsV(i, et, x[k], ya[k]))
			if acc == false {
				return false
			}
		}
		return acc
	case iface:
		yi := y.(iface)
		if !sameType(x.t, yi.t) {
			return false
		}
		if x.t == nil {
			return true
		}
		return equalsV(i, x.t, x.v, yi.v)
	case *nativeObj:
		yo, ok := y.(*nativeObj)
		if !ok {
			return false
		}
		return nativeEq(x, yo)
	case *value:
		yp, ok := y.(*value)
		return ok && x == yp
	case *omap:
		ym, ok := y.(*omap)
		return ok && x == ym
	case []value:
		panic(goPanic("runtime error: comparing uncomparable type " + t.String()))
	case *ssa.Function, *closure:
		panic(goPanic("runtime error: comparing uncomparable type " + t.String()))
	}
	return equalsOld(t, x, y)
}

func (i *interpreter) andV(x, y value) value {
	if xb, ok := x.(bool); ok {
		if !xb {
			return false
		}
		return y
	}
	if yb, ok := y.(bool); ok {
		if !yb {
			return false
		}
		return x
	}
	return mkScalar(i.path.B.And(x.(*Sym).T, y.(*Sym).T), types.Bool)
}

// equals decides x == y on this path.
func equals(i *interpreter, t types.Type, x, y value) bool {
	return i.decide(equalsV(i, t, x, y))
}
