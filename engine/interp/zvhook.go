package interp

import (
	"fmt"
	"go/types"
	"reflect"

	"golang.org/x/tools/go/ssa"
	"zsym/smt"
)

var reflect_anyT = reflect.TypeOf((*interface{})(nil)).Elem()

func strArg(v value) string {
	switch s := v.(type) {
	case string:
		return s
	}
	return fmt.Sprint(v)
}

func (i *interpreter) zvCall(fr *frame, fn *ssa.Function, args []value) value {
	p := i.path
	b := p.B
	switch fn.Name() {
	case "init":
		return nil
	case "Float64":
		return p.NewInput(strArg(args[0]), "float64", types.Float64)
	case "Int":
		s := p.NewInput(strArg(args[0]), "int", types.Int)
		lo, hi := asInt64(args[1]), asInt64(args[2])
		p.AssumeT(b.And(b.BVBin(smt.OBVSle, b.BVC(64, uint64(lo)), s.T), b.BVBin(smt.OBVSle, s.T, b.BVC(64, uint64(hi)))))
		return s
	case "Int64":
		return p.NewInput(strArg(args[0]), "int64", types.Int64)
	case "Rune":
		return p.NewInput(strArg(args[0]), "rune", types.Int32)
	case "Byte":
		return p.NewInput(strArg(args[0]), "byte", types.Uint8)
	case "Bool":
		return p.NewInput(strArg(args[0]), "bool", types.Bool)
	case "Choose":
		return p.ForkN(int(asInt64(args[0])))
	case "Assume":
		p.AssumeT(i.term(args[0]))
		return nil
	case "Assert":
		p.AssertT(i.term(args[0]), strArg(args[1]))
		return nil
	case "Reach":
		p.Reached[strArg(args[0])] = true
		return nil
	case "Observe":
		if len(p.Observed) < 64 {
			text := "?"
			func() {
				defer func() {
					if r := recover(); r != nil {
						if _, isArg := r.(unsupportedArg); !isArg {
							panic(r)
						}
						p.ObservedSymbolic = true
					}
				}()
				var natives []interface{}
				if vs, ok := args[1].([]value); ok {
					for _, v := range vs {
						natives = append(natives, i.toNative(v, reflect_anyT).Interface())
					}
				}
				text = fmt.Sprint(natives...)
			}()
			p.Observed = append(p.Observed, strArg(args[0])+": "+text)
		}
		return nil
	case "SameFloat":
		x, y := i.term(args[0]), i.term(args[1])
		return mkScalar(b.Eq(x, y), types.Bool)
	case "StringTable":
		name := strArg(args[0])
		keys := i.world.stringTable(name)
		if i.path.Tables == nil {
			i.path.Tables = map[string][]string{}
		}
		i.path.Tables[name] = keys
		out := make([]value, len(keys))
		for k, s := range keys {
			out[k] = s
		}
		return out
	case "SelectOracle":
		i.selectFn = args[0]
		return nil
	case "NoSummaries":
		i.noSummary = true
		return nil
	case "Symbolic":
		return true
	case "Tier":
		return i.world.Tier
	case "Stop":
		panic(pathAbort{abortDone, "zv.Stop"})
	case "Note":
		p.Notes["harness: "+strArg(args[0])]++
		return nil
	case "SetMapOrder":
		i.mapOrder = int(asInt64(args[0]))
		return nil
	case "DeferGoroutines":
		// from now on the body of a `go` statement does not run at the
		// statement: it waits until RunPendingGoroutine picks it
		if b, ok := args[0].(bool); ok && b {
			i.goMode = goModeDefer
		} else {
			i.goMode = goModeInline
		}
		return nil
	case "RunPendingGoroutine":
		// run the oldest waiting goroutine body to its end (sequentialised)
		if len(i.pendingGo) == 0 {
			return false
		}
		g := i.pendingGo[0]
		i.pendingGo = i.pendingGo[1:]
		call(i, nil, 0, g.fn, g.args)
		return true
	case "RunGoroutine":
		// run inline; Goexit-like aborts are engine-level
		var panicked value = iface{}
		done := false
		func() {
			defer func() {
				if r := recover(); r != nil {
					switch r := r.(type) {
					case pathAbort:
						panic(r)
					case targetPanic:
						panicked = r.v
					case runtimePanic:
						panicked = iface{i.world.runtimeErrorString, r.msg}
					default:
						panic(r)
					}
				}
			}()
			call(i, fr, 0, args[0], nil)
			done = true
		}()
		return tuple{panicked, done}
	}
	panic(pathAbort{abortUnsupported, "zv." + fn.Name() + " not available under the engine"})
}
