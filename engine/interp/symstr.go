package interp

// Symbolic strings are kept as sequences of runes (each a concrete int32 or a
// symbolic Int32).  All runes are normalised valid Unicode scalars (what
// string([]rune) produces), so []rune(s) is the identity and equality is
// rune-wise.  Byte-level views are produced on demand by forking on the UTF-8
// length class of each symbolic rune.

import (
	"fmt"
	"go/token"
	"go/types"
	"unicode/utf8"

	"zsym/smt"
)

type symStr struct {
	r []value
}

func (s *symStr) String() string { return fmt.Sprintf("symstr%v", s.r) }

func isStr(v value) bool {
	switch v.(type) {
	case string, *symStr:
		return true
	}
	return false
}

// runesOf returns the rune sequence of a string value.
func runesOf(v value) []value {
	switch v := v.(type) {
	case *symStr:
		return v.r
	case string:
		out := make([]value, 0, len(v))
		for _, r := range v {
			out = append(out, r)
		}
		return out
	}
	panic(fmt.Sprintf("runesOf: %T", v))
}

// mkStr builds a string value from runes, collapsing to a Go string when all
// runes are concrete.
func mkStr(r []value) value {
	conc := true
	for _, x := range r {
		if _, ok := x.(int32); !ok {
			conc = false
			break
		}
	}
	if conc {
		rs := make([]rune, len(r))
		for k, x := range r {
			rs[k] = x.(int32)
		}
		return string(rs)
	}
	return &symStr{r: append([]value(nil), r...)}
}

// normRune maps a rune value to the scalar string(rune) produces.
func (i *interpreter) normRune(v value) value {
	switch v := v.(type) {
	case int32:
		if !utf8.ValidRune(v) {
			return int32(utf8.RuneError)
		}
		return v
	case *Sym:
		b := i.path.B
		t := v.T
		if t.Sort.W != 32 {
			w, signed, _ := intInfo(v.K)
			_ = w
			// string(int64) etc: out of int32 range => FFFD
			t32 := b.Resize(t, 32, signed)
			fits := b.Eq(b.Resize(t32, t.Sort.W, true), t)
			t = b.Ite(fits, t32, b.BVC(32, 0xFFFD))
		}
		valid := b.Or(
			b.And(b.BVBin(smt.OBVSle, b.BVC(32, 0), t), b.BVBin(smt.OBVSlt, t, b.BVC(32, 0xD800))),
			b.And(b.BVBin(smt.OBVSle, b.BVC(32, 0xE000), t), b.BVBin(smt.OBVSle, t, b.BVC(32, 0x10FFFF))))
		return mkScalar(b.Ite(valid, t, b.BVC(32, 0xFFFD)), types.Int32)
	}
	// other concrete integer kinds
	x := asInt64(v)
	if x < 0 || x > 0x10FFFF || !utf8.ValidRune(rune(x)) {
		return int32(utf8.RuneError)
	}
	return int32(x)
}

// runeLenTerm returns the UTF-8 length of a (normalised) rune as an int value.
func (i *interpreter) runeLen(r value) value {
	switch r := r.(type) {
	case int32:
		return utf8.RuneLen(r)
	case *Sym:
		b := i.path.B
		c := func(n uint64) *smt.Term { return b.BVC(64, n) }
		lt := func(k uint64) *smt.Term { return b.BVBin(smt.OBVSlt, r.T, b.BVC(32, k)) }
		return mkScalar(b.Ite(lt(0x80), c(1), b.Ite(lt(0x800), c(2), b.Ite(lt(0x10000), c(3), c(4)))), types.Int)
	}
	panic("runeLen")
}

// strLen returns len(s) in bytes.
func (i *interpreter) strLen(s *symStr) value {
	var total value = int(0)
	for _, r := range s.r {
		total = i.addInt(total, i.runeLen(r))
	}
	return total
}

func (i *interpreter) addInt(x, y value) value {
	if xi, ok := x.(int); ok {
		if yi, ok := y.(int); ok {
			return xi + yi
		}
	}
	return i.symBinop(token.ADD, x, y)
}

// strEq returns x == y as a bool value.
func (i *interpreter) strEq(x, y value) value {
	if xs, ok := x.(string); ok {
		if ys, ok := y.(string); ok {
			return xs == ys
		}
	}
	rx, ry := runesOf(x), runesOf(y)
	if len(rx) != len(ry) {
		for _, e := range rx {
			if _, isO := e.(opaqueSeg); isO {
				return i.unknownBool("comparison involving text formatted from a symbolic number")
			}
		}
		for _, e := range ry {
			if _, isO := e.(opaqueSeg); isO {
				return i.unknownBool("comparison involving text formatted from a symbolic number")
			}
		}
		return false
	}
	for k := range rx {
		ox, isOx := rx[k].(opaqueSeg)
		oy, isOy := ry[k].(opaqueSeg)
		if isOx || isOy {
			if isOx && isOy && ox.id == oy.id {
				continue
			}
			return i.unknownBool("comparison involving text formatted from a symbolic number")
		}
	}
	b := i.path.B
	acc := b.BoolC(true)
	for k := range rx {
		if _, isO := rx[k].(opaqueSeg); isO {
			continue
		}
		acc = b.And(acc, b.Eq(i.term(rx[k]), i.term(ry[k])))
		if acc.IsFalse() {
			return false
		}
	}
	return mkScalar(acc, types.Bool)
}

// strLess returns x < y (byte-wise lexicographic == code point lexicographic).
func (i *interpreter) strLess(x, y value, orEq bool) value {
	rx, ry := runesOf(x), runesOf(y)
	b := i.path.B
	// fold from the end
	var acc *smt.Term
	n := len(rx)
	if len(ry) < n {
		n = len(ry)
	}
	// tail: all common runes equal -> compare lengths
	switch {
	case len(rx) < len(ry):
		acc = b.BoolC(true)
	case len(rx) > len(ry):
		acc = b.BoolC(false)
	default:
		acc = b.BoolC(orEq)
	}
	for k := n - 1; k >= 0; k-- {
		tx, ty := i.term(rx[k]), i.term(ry[k])
		acc = b.Ite(b.Eq(tx, ty), acc, b.BVBin(smt.OBVSlt, tx, ty))
	}
	return mkScalar(acc, types.Bool)
}

func (i *interpreter) strBinop(op token.Token, x, y value) value {
	switch op {
	case token.ADD:
		return mkStr(append(append([]value(nil), runesOf(x)...), runesOf(y)...))
	case token.EQL:
		return i.strEq(x, y)
	case token.NEQ:
		return i.notV(i.strEq(x, y))
	case token.LSS:
		return i.strLess(x, y, false)
	case token.LEQ:
		return i.strLess(x, y, true)
	case token.GTR:
		return i.strLess(y, x, false)
	case token.GEQ:
		return i.strLess(y, x, true)
	}
	panic(pathAbort{abortUnsupported, "string op " + op.String()})
}

func (i *interpreter) notV(v value) value {
	switch v := v.(type) {
	case bool:
		return !v
	case *Sym:
		return mkScalar(i.path.B.Not(v.T), types.Bool)
	}
	panic("notV")
}

// concreteRuneLen decides the UTF-8 length class of rune r on this path.
func (i *interpreter) concreteRuneLen(r value) int {
	switch r := r.(type) {
	case int32:
		return utf8.RuneLen(r)
	case *Sym:
		b := i.path.B
		lt := func(k uint64) *smt.Term { return b.BVBin(smt.OBVSlt, r.T, b.BVC(32, k)) }
		if i.decideT(lt(0x80)) {
			return 1
		}
		if i.decideT(lt(0x800)) {
			return 2
		}
		if i.decideT(lt(0x10000)) {
			return 3
		}
		return 4
	}
	panic("concreteRuneLen")
}

// strBytes returns the UTF-8 bytes of s (forking on length classes).
func (i *interpreter) strBytes(s value) []value {
	if cs, ok := s.(string); ok {
		out := make([]value, len(cs))
		for k := 0; k < len(cs); k++ {
			out[k] = cs[k]
		}
		return out
	}
	b := i.path.B
	var out []value
	for _, r := range s.(*symStr).r {
		if c, ok := r.(int32); ok {
			var buf [4]byte
			n := utf8.EncodeRune(buf[:], c)
			for k := 0; k < n; k++ {
				out = append(out, buf[k])
			}
			continue
		}
		t := r.(*Sym).T
		n := i.concreteRuneLen(r)
		ex := func(hi, lo int) *smt.Term { return b.Resize(b.Extract(hi, lo, t), 8, false) }
		or := func(x *smt.Term, m uint64) value { return mkScalar(b.BVBin(smt.OBVOr, x, b.BVC(8, m)), types.Uint8) }
		switch n {
		case 1:
			out = append(out, mkScalar(ex(7, 0), types.Uint8))
		case 2:
			out = append(out, or(ex(10, 6), 0xC0), or(ex(5, 0), 0x80))
		case 3:
			out = append(out, or(ex(15, 12), 0xE0), or(ex(11, 6), 0x80), or(ex(5, 0), 0x80))
		case 4:
			out = append(out, or(ex(20, 18), 0xF0), or(ex(17, 12), 0x80), or(ex(11, 6), 0x80), or(ex(5, 0), 0x80))
		}
	}
	return out
}

// strSlice implements s[lo:hi] on a symbolic string (byte offsets).  When an
// offset falls inside a multi-byte character the result holds one U+FFFD per
// orphaned byte (what decoding the broken text yields) and the path is
// flagged imprecise.
func (i *interpreter) strSlice(s *symStr, lo, hi int64, hasHi bool) value {
	var out []value
	off := int64(0)
	total := int64(0)
	lens := make([]int64, len(s.r))
	for k, r := range s.r {
		if _, isO := r.(opaqueSeg); isO {
			panic(pathAbort{abortUnsupported, "byte slicing of opaque formatted text"})
		}
		lens[k] = int64(i.concreteRuneLen(r))
		total += lens[k]
	}
	if !hasHi {
		hi = total
	}
	if lo < 0 || hi > total || lo > hi {
		panic(goPanic(fmt.Sprintf("runtime error: slice bounds out of range [%d:%d] with length %d", lo, hi, total)))
	}
	for k, r := range s.r {
		start, end := off, off+lens[k]
		off = end
		if end <= lo || start >= hi {
			continue
		}
		if start >= lo && end <= hi {
			out = append(out, r)
			continue
		}
		// partially covered character
		a, b := start, end
		if a < lo {
			a = lo
		}
		if b > hi {
			b = hi
		}
		i.path.Imprecise("string slice splits a multi-byte character")
		for j := a; j < b; j++ {
			out = append(out, int32(0xFFFD))
		}
	}
	return mkStr(out)
}

// symStrIter ranges over a symbolic string.
type symStrIter struct {
	i   *interpreter
	s   *symStr
	k   int
	off value
}

func (it *symStrIter) next() tuple {
	if it.k >= len(it.s.r) {
		return tuple{false, nil, nil}
	}
	r := it.s.r[it.k]
	off := it.off
	it.off = it.i.addInt(it.off, it.i.runeLen(r))
	it.k++
	return tuple{true, off, r}
}

// Go allocator size classes (go1.23, amd64) for slice capacity modelling.
var sizeClasses = []int64{0, 8, 16, 24, 32, 48, 64, 80, 96, 112, 128, 144, 160, 176, 192, 208, 224, 240, 256, 288, 320, 352, 384, 416, 448, 480, 512, 576, 640, 704, 768, 896, 1024, 1152, 1280, 1408, 1536, 1792, 2048, 2304, 2688, 3072, 3200, 3456, 4096, 4864, 5120, 5376, 6144, 6528, 6784, 6912, 8192, 9472, 9728, 10240, 10880, 12288, 13568, 14336, 16384, 18432, 19072, 20480, 21760, 24576, 27264, 28672, 32768}

func roundupsize(n int64) int64 {
	if n <= 32768 {
		for _, c := range sizeClasses {
			if c >= n {
				return c
			}
		}
	}
	const page = 8192
	return (n + page - 1) / page * page
}

// growCap mirrors runtime.growslice's capacity computation.
func growCap(oldCap, newLen int, elemSize int64) int {
	newcap := oldCap
	doublecap := newcap + newcap
	if newLen > doublecap {
		newcap = newLen
	} else {
		const threshold = 256
		if oldCap < threshold {
			newcap = doublecap
		} else {
			for newcap < newLen {
				newcap += (newcap + 3*threshold) >> 2
			}
		}
	}
	if elemSize <= 0 {
		return newcap
	}
	mem := roundupsize(int64(newcap) * elemSize)
	return int(mem / elemSize)
}

// appendValues implements append(s, elems...) with Go's growth policy.
func appendValues(s []value, elems []value, elemSize int64) []value {
	n := len(s) + len(elems)
	if n <= cap(s) {
		out := s[:n]
		copy(out[len(s):], elems)
		return out
	}
	nc := growCap(cap(s), n, elemSize)
	out := make([]value, n, nc)
	copy(out, s)
	copy(out[len(s):], elems)
	return out
}

// freshSlice allocates a slice the way string->[]rune / []byte conversions do
// (heap: capacity rounded up to the allocator size class).
func freshSlice(elems []value, elemSize int64) []value {
	if len(elems) == 0 {
		return []value{}
	}
	c := int(roundupsize(int64(len(elems))*elemSize) / elemSize)
	out := make([]value, len(elems), c)
	copy(out, elems)
	return out
}

// unknownBool is an unconstrained boolean: both outcomes are explored and the
// path is flagged imprecise (counterexamples need native confirmation).
func (i *interpreter) unknownBool(why string) value {
	i.path.Imprecise(why)
	i.opaqueN++
	return mkScalar(i.path.B.Var(fmt.Sprintf("unk_%d", i.opaqueN), smt.Bool), types.Bool)
}
