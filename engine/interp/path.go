package interp

// One symbolic path = one deterministic re-execution of the harness under a
// decision prefix.  Decisions beyond the prefix are resolved with the solver;
// the alternative side is queued as a new prefix.

import (
	"fmt"
	"go/types"
	"sort"
	"strings"
	"time"

	"zsym/smt"
)

type abortKind int

const (
	abortUnsupported abortKind = iota
	abortInfeasible
	abortBudget
	abortUnknown
	abortViolation
	abortEngine
	abortDone // harness asked to stop this path (zv.Stop)
)

func (k abortKind) String() string {
	return [...]string{"unsupported", "infeasible", "budget", "solver-unknown", "violation", "engine", "done"}[k]
}

type pathAbort struct {
	kind abortKind
	msg  string
}

// runtimePanic is a Go run-time error raised by the interpreted program.
type runtimePanic struct{ msg string }

func goPanic(msg string) runtimePanic { return runtimePanic{msg} }

type InputRec struct {
	Name string
	Kind string // float64, int, rune, byte, bool, ...
	Term *smt.Term
}

type Violation struct {
	Label    string
	Inputs   map[string]interface{}
	Forks    []int32
	Trace    []int32
	Detail   string
	Tables   map[string][]string
	Schedule []int32
}

// PendingPath is a queued decision prefix with (optionally) a model of its
// path condition.
type PendingPath struct {
	Prefix []int32
	Model  smt.Model
}

type Path struct {
	B *smt.Builder
	S *smt.Solver

	Prefix    []int32
	pos       int
	Trace     []int32
	Pending   []PendingPath
	pcTerms   []*smt.Term
	pcVars    [][]int
	varMemo   map[*smt.Term][]int
	varIdx    map[*smt.Term]int
	ufParent  []int
	initModel smt.Model
	NWitness  int

	model   smt.Model
	memo    map[*smt.Term]uint64
	modelOK bool

	Steps    int64
	MaxSteps int64
	// WallDeadline: no path runs beyond it (zero: no limit)
	WallDeadline time.Time

	Inputs           []InputRec
	Forks            []int32 // values returned by ForkN, in order (for native replay)
	Schedule         []int32 // engine-chosen schedule decisions (map order, events)
	Reached          map[string]bool
	Observed         []string
	ObservedSymbolic bool // some observation had symbolic content (not comparable with a native run)
	Notes            map[string]int
	Violation        *Violation
	PanicMsg         string

	NDecisions   int
	NPointEval   int // conjunctions decided by evaluation at the single point they pin
	NSolver      int
	NModelHits   int
	NAsserts     int
	NAssertSyn   int // assertions discharged syntactically (constant true)
	NAssertQuery int
	NUnknown     int
	FuncsSeen    map[string]bool
	Depth        int

	unknownsHere  int
	Tables        map[string][]string
	MapRanges     map[string]bool
	local         *localCtx
	NSummaries    int
	NSummaryPaths int
}

func NewPath(s *smt.Solver, prefix []int32, maxSteps int64, init smt.Model) *Path {
	return &Path{
		B: smt.NewBuilder(), S: s, Prefix: prefix, MaxSteps: maxSteps, initModel: init,
		Reached: map[string]bool{}, Notes: map[string]int{}, FuncsSeen: map[string]bool{},
		MapRanges: map[string]bool{},
		memo:      map[*smt.Term]uint64{}, varMemo: map[*smt.Term][]int{}, varIdx: map[*smt.Term]int{},
	}
}

func (p *Path) Imprecise(why string) { p.Notes["imprecise: "+why]++ }

func (p *Path) replaying() bool { return p.pos < len(p.Prefix) }

func (p *Path) assertT(t *smt.Term) {
	if t.IsTrue() {
		return
	}
	p.pcTerms = append(p.pcTerms, t)
	// value propagation: pc fixes a variable
	switch {
	case t.Op == smt.OEq && t.Args[0].Op == smt.OVar && t.Args[1].Op == smt.OConst:
		p.B.Bind(t.Args[0], t.Args[1])
	case t.Op == smt.OEq && t.Args[1].Op == smt.OVar && t.Args[0].Op == smt.OConst:
		p.B.Bind(t.Args[1], t.Args[0])
	case t.Op == smt.OVar && t.Sort.K == smt.KBool:
		p.B.Bind(t, p.B.BoolC(true))
	case t.Op == smt.ONot && t.Args[0].Op == smt.OVar:
		p.B.Bind(t.Args[0], p.B.BoolC(false))
	}
	vs := p.varsOf(t)
	p.pcVars = append(p.pcVars, vs)
	for k := 1; k < len(vs); k++ {
		p.union(vs[0], vs[k])
	}
}

// varsOf returns the (sorted) indexes of the variables of t.
func (p *Path) varsOf(t *smt.Term) []int {
	if vs, ok := p.varMemo[t]; ok {
		return vs
	}
	var vs []int
	switch t.Op {
	case smt.OVar:
		idx, ok := p.varIdx[t]
		if !ok {
			idx = len(p.varIdx)
			p.varIdx[t] = idx
			p.ufParent = append(p.ufParent, idx)
		}
		vs = []int{idx}
	case smt.OConst:
	default:
		for _, a := range t.Args {
			vs = mergeSorted(vs, p.varsOf(a))
		}
	}
	p.varMemo[t] = vs
	return vs
}

func mergeSorted(a, b []int) []int {
	if len(a) == 0 {
		return b
	}
	if len(b) == 0 {
		return a
	}
	out := make([]int, 0, len(a)+len(b))
	i, j := 0, 0
	for i < len(a) && j < len(b) {
		switch {
		case a[i] < b[j]:
			out = append(out, a[i])
			i++
		case a[i] > b[j]:
			out = append(out, b[j])
			j++
		default:
			out = append(out, a[i])
			i++
			j++
		}
	}
	out = append(out, a[i:]...)
	out = append(out, b[j:]...)
	return out
}

func (p *Path) find(x int) int {
	for p.ufParent[x] != x {
		p.ufParent[x] = p.ufParent[p.ufParent[x]]
		x = p.ufParent[x]
	}
	return x
}

func (p *Path) union(a, b int) {
	ra, rb := p.find(a), p.find(b)
	if ra != rb {
		p.ufParent[ra] = rb
	}
}

// relevant returns the path-condition terms that share variables
// (transitively) with the query terms, followed by the query terms; and the
// set of variable-class representatives involved.
func (p *Path) relevant(query ...*smt.Term) ([]*smt.Term, map[int]bool) {
	reps := map[int]bool{}
	for _, q := range query {
		for _, v := range p.varsOf(q) {
			reps[p.find(v)] = true
		}
	}
	var out []*smt.Term
	for k, t := range p.pcTerms {
		vs := p.pcVars[k]
		if len(vs) == 0 {
			out = append(out, t) // variable-free but not constant-folded: keep
			continue
		}
		if reps[p.find(vs[0])] {
			out = append(out, t)
		}
	}
	return append(out, query...), reps
}

// checkSliced decides pc ∧ query using only the relevant part of pc.  The
// returned model (when asked for) is the current model overridden on the
// variables of the relevant classes.
func (p *Path) checkSliced(wantModel bool, query ...*smt.Term) (smt.Result, smt.Model) {
	terms, reps := p.relevant(query...)
	r, m, decided := p.pointEval(terms)
	if decided {
		p.NPointEval++
	} else {
		r, m = p.S.Check(p.B, terms, wantModel, p.B.Vars)
	}
	if r == smt.Unknown {
		p.unknownsHere++
		if p.unknownsHere > 6 {
			// the solver cannot cope with this path's constraints: give the
			// path up (reported as incomplete) instead of burning the budget
			panic(pathAbort{abortUnknown, "more than 6 inconclusive solver answers on one path"})
		}
		var sb strings.Builder
		for _, t := range terms {
			ts := t.String()
			if len(ts) > 160 {
				ts = ts[:160] + "…"
			}
			sb.WriteString(ts + " ∧ ")
			if sb.Len() > 600 {
				break
			}
		}
		p.Notes["unknown query: "+sb.String()]++
	}
	if r != smt.Sat || !wantModel || m == nil {
		return r, nil
	}
	if !p.modelOK || p.model == nil {
		// no valid base model: only usable when the slice is the whole pc
		if len(terms)-len(query) == len(p.pcTerms) {
			return r, m
		}
		return r, nil
	}
	merged := make(smt.Model, len(p.model)+len(m))
	for k, v := range p.model {
		merged[k] = v
	}
	for v, idx := range p.varIdx {
		if reps[p.find(idx)] {
			merged[v.Name] = m[v.Name]
		}
	}
	return r, merged
}

// pointEval decides a conjunction without the solver when its conjuncts pin
// every variable they mention to a constant (x = c, b, not b): the conjunction
// is then satisfiable iff it evaluates to true at that single point.  (Sound
// and complete for such conjunctions; anything the evaluator does not
// interpret - uninterpreted functions, unspecified conversions - is left to
// the solver.)
func (p *Path) pointEval(terms []*smt.Term) (smt.Result, smt.Model, bool) {
	point := smt.Model{}
	pinned := map[*smt.Term]bool{}
	for _, t := range terms {
		switch {
		case t.Op == smt.OEq && t.Args[0].Op == smt.OVar && t.Args[1].Op == smt.OConst:
			point[t.Args[0].Name] = t.Args[1].U
			pinned[t.Args[0]] = true
		case t.Op == smt.OEq && t.Args[1].Op == smt.OVar && t.Args[0].Op == smt.OConst:
			point[t.Args[1].Name] = t.Args[0].U
			pinned[t.Args[1]] = true
		case t.Op == smt.OVar && t.Sort.K == smt.KBool:
			point[t.Name] = 1
			pinned[t] = true
		case t.Op == smt.ONot && t.Args[0].Op == smt.OVar:
			point[t.Args[0].Name] = 0
			pinned[t.Args[0]] = true
		}
	}
	if len(pinned) == 0 {
		return smt.Unknown, nil, false
	}
	pinnedIdx := map[int]bool{}
	for v := range pinned {
		if idx, ok := p.varIdx[v]; ok {
			pinnedIdx[idx] = true
		}
	}
	for _, t := range terms {
		for _, idx := range p.varsOf(t) {
			if !pinnedIdx[idx] {
				return smt.Unknown, nil, false
			}
		}
	}
	memo := map[*smt.Term]uint64{}
	for _, t := range terms {
		v, ok := smt.Eval(t, point, memo)
		if !ok {
			return smt.Unknown, nil, false
		}
		if v != 1 {
			return smt.Unsat, nil, true
		}
	}
	return smt.Sat, point, true
}

// endReplay is called when the last prefix decision has been consumed.
func (p *Path) endReplay() {
	if p.initModel != nil {
		p.setModel(p.initModel)
	} else {
		p.modelOK = false
	}
}

func (p *Path) ensureModel() {
	if p.modelOK {
		return
	}
	p.NSolver++
	r, m := p.S.Check(p.B, p.pcTerms, true, p.B.Vars)
	switch r {
	case smt.Sat:
		if m == nil {
			panic(pathAbort{abortUnknown, "no model: " + p.S.LastError})
		}
		p.setModel(m)
	case smt.Unsat:
		panic(pathAbort{abortInfeasible, "path condition unsatisfiable"})
	default:
		p.NUnknown++
		panic(pathAbort{abortUnknown, "path condition: solver unknown " + p.S.LastError})
	}
}

func (p *Path) setModel(m smt.Model) {
	p.model = m
	p.memo = map[*smt.Term]uint64{}
	p.modelOK = true
}

func (p *Path) eval(t *smt.Term) (uint64, bool) {
	return smt.Eval(t, p.model, p.memo)
}

// Decide resolves a symbolic branch condition.
func (p *Path) Decide(c *smt.Term) bool {
	if c.IsConst() {
		return c.U == 1
	}
	if p.local != nil {
		return p.localDecide(c)
	}
	p.NDecisions++
	b := p.B
	if p.replaying() {
		d := p.Prefix[p.pos]
		p.pos++
		taken := d == 1
		if taken {
			p.assertT(c)
		} else {
			p.assertT(b.Not(c))
		}
		p.Trace = append(p.Trace, d)
		if !p.replaying() {
			p.endReplay()
		}
		return taken
	}
	p.ensureModel()
	v, ok := p.eval(c)
	if ok {
		p.NModelHits++
		taken := v == 1
		other := c
		if taken {
			other = b.Not(c)
		}
		od := int32(1)
		if taken {
			od = 0
		}
		if wm := p.tryWitness(other); wm != nil {
			p.push(od, wm)
		} else {
			p.NSolver++
			r, m := p.checkSliced(true, other)
			switch r {
			case smt.Sat:
				p.push(od, m)
			case smt.Unknown:
				p.NUnknown++
				p.Notes["feasibility unknown (branch kept)"]++
				p.push(od, nil)
			}
		}
		if taken {
			p.assertT(c)
			p.Trace = append(p.Trace, 1)
		} else {
			p.assertT(b.Not(c))
			p.Trace = append(p.Trace, 0)
		}
		return taken
	}
	// model cannot evaluate the condition (uninterpreted parts): ask for both sides
	p.NSolver += 2
	r1, m1 := p.checkSliced(true, c)
	r2, m2 := p.checkSliced(true, b.Not(c))
	if r1 == smt.Unknown || r2 == smt.Unknown {
		p.NUnknown++
		p.Notes["feasibility unknown (branch kept)"]++
	}
	switch {
	case r1 != smt.Unsat && r2 != smt.Unsat:
		p.push(0, m2)
		p.assertT(c)
		p.Trace = append(p.Trace, 1)
		if r1 == smt.Sat && m1 != nil {
			p.setModel(m1)
		} else {
			p.modelOK = false
		}
		return true
	case r1 != smt.Unsat:
		p.assertT(c)
		p.Trace = append(p.Trace, 1)
		if r1 == smt.Sat && m1 != nil {
			p.setModel(m1)
		} else {
			p.modelOK = false
		}
		return true
	case r2 != smt.Unsat:
		p.assertT(b.Not(c))
		p.Trace = append(p.Trace, 0)
		if r2 == smt.Sat && m2 != nil {
			p.setModel(m2)
		} else {
			p.modelOK = false
		}
		return false
	}
	panic(pathAbort{abortInfeasible, "both sides infeasible"})
}

func (p *Path) push(d int32, m smt.Model) {
	np := make([]int32, len(p.Trace)+1)
	copy(np, p.Trace)
	np[len(p.Trace)] = d
	p.Pending = append(p.Pending, PendingPath{np, m})
}

// ForkN is a pure n-way decision (no solver involved).
// ForkSchedule is ForkN for engine-chosen schedules (map iteration order,
// event order): the choice is part of the decision trace but not of the
// harness-visible fork list (a native replay cannot impose it).
func (p *Path) ForkSchedule(n int) int {
	keep := p.Forks
	d := p.ForkN(n)
	p.Forks = keep
	p.Schedule = append(p.Schedule, int32(d))
	return d
}

func (p *Path) ForkN(n int) int {
	if n <= 1 {
		return 0
	}
	if p.local != nil {
		panic(summaryAbort{"fork inside summary"})
	}
	var d int32
	if p.replaying() {
		d = p.Prefix[p.pos]
		p.pos++
		if !p.replaying() {
			p.endReplay()
		}
	} else {
		var cur smt.Model
		if p.modelOK {
			cur = p.model
		}
		for k := n - 1; k >= 1; k-- {
			p.push(int32(k), cur)
		}
	}
	p.Trace = append(p.Trace, d)
	p.Forks = append(p.Forks, d)
	return int(d)
}

// AssumeT restricts the path to states satisfying c.
func (p *Path) AssumeT(c *smt.Term) {
	if p.local != nil {
		panic(summaryAbort{"assume inside summary"})
	}
	if c.IsConst() {
		if c.U == 0 {
			panic(pathAbort{abortInfeasible, "assume false"})
		}
		return
	}
	if p.replaying() {
		p.assertT(c)
		return
	}
	if p.modelOK {
		if v, ok := p.eval(c); ok && v == 1 {
			p.assertT(c)
			return
		}
	}
	p.NSolver++
	r, m := p.checkSliced(true, c)
	switch r {
	case smt.Unsat:
		panic(pathAbort{abortInfeasible, "assume infeasible"})
	case smt.Unknown:
		p.NUnknown++
		p.assertT(c)
		p.modelOK = false
		p.Notes["assume: solver unknown (kept)"]++
		return
	}
	p.assertT(c)
	if m != nil {
		p.setModel(m)
	} else {
		p.modelOK = false
	}
}

// AssertT checks that c holds on every state of the path.
func (p *Path) AssertT(c *smt.Term, label string) {
	if p.local != nil {
		panic(summaryAbort{"assert inside summary"})
	}
	p.NAsserts++
	if c.IsConst() {
		if c.U == 1 {
			p.NAssertSyn++
			return
		}
		p.ensureModelSoft()
		p.fail(label, "assertion is constant false on this path")
	}
	if p.replaying() {
		return // already decided on the path this prefix was forked from
	}
	p.ensureModel()
	if v, ok := p.eval(c); ok && v == 0 {
		p.fail(label, "model of the path condition falsifies the assertion")
	}
	// cheap counterexample search first: a model near the current one that
	// satisfies the path condition and falsifies the assertion
	if wm := p.tryWitness(p.B.Not(c)); wm != nil {
		p.setModel(wm)
		p.fail(label, "counterexample found by evaluation near the current model")
	}
	p.NSolver++
	p.NAssertQuery++
	r, m := p.checkSliced(true, p.B.Not(c))
	switch r {
	case smt.Unsat:
		return
	case smt.Sat:
		if m != nil {
			p.setModel(m)
		}
		p.fail(label, "solver found a counterexample")
	default:
		p.NUnknown++
		p.Notes["assertion inconclusive: "+label]++
	}
}

func (p *Path) ensureModelSoft() {
	defer func() {
		if r := recover(); r != nil {
			if _, ok := r.(pathAbort); !ok {
				panic(r)
			}
		}
	}()
	if !p.replaying() {
		p.ensureModel()
	}
}

func (p *Path) fail(label, detail string) {
	p.Violation = &Violation{Label: label, Inputs: p.InputValues(), Forks: append([]int32(nil), p.Forks...),
		Trace: append([]int32(nil), p.Trace...), Detail: detail, Tables: p.Tables, Schedule: append([]int32(nil), p.Schedule...)}
	panic(pathAbort{abortViolation, label})
}

// InputValues renders the current model restricted to the declared inputs.
func (p *Path) InputValues() map[string]interface{} {
	out := map[string]interface{}{}
	for _, in := range p.Inputs {
		var u uint64
		if in.Term.IsConst() {
			u = in.Term.U
		} else if p.model != nil {
			u = p.model[in.Term.Name]
		}
		out[in.Name] = renderInput(in.Kind, u)
	}
	return out
}

func renderInput(kind string, u uint64) interface{} {
	switch kind {
	case "float64":
		// keep exact bits: hex string
		return fmt.Sprintf("0x%016x", u)
	case "bool":
		return u == 1
	case "rune", "int32":
		return int64(int32(u))
	case "byte":
		return int64(uint8(u))
	case "int", "int64":
		return int64(u)
	}
	return int64(u)
}

func (p *Path) NewInput(name, kind string, k types.BasicKind) *Sym {
	// names must be unique per path; append an index on reuse
	base := name
	n := 0
	for _, in := range p.Inputs {
		if in.Name == name {
			n++
			name = fmt.Sprintf("%s_%d", base, n)
		}
	}
	t := p.B.Var("in_"+sanitize(name), sortOfKind(k))
	p.Inputs = append(p.Inputs, InputRec{Name: name, Kind: kind, Term: t})
	return &Sym{T: t, K: k}
}

func sanitize(s string) string {
	out := make([]byte, 0, len(s))
	for i := 0; i < len(s); i++ {
		c := s[i]
		if c >= 'a' && c <= 'z' || c >= 'A' && c <= 'Z' || c >= '0' && c <= '9' || c == '_' {
			out = append(out, c)
		} else {
			out = append(out, '_')
		}
	}
	return string(out)
}

func (p *Path) ReachedList() []string {
	var l []string
	for k := range p.Reached {
		l = append(l, k)
	}
	sort.Strings(l)
	return l
}

// ---- interpreter-side helpers

func (i *interpreter) decideT(c *smt.Term) bool { return i.path.Decide(c) }

// decide resolves a bool value (concrete or symbolic).
func (i *interpreter) decide(v value) bool {
	switch v := v.(type) {
	case bool:
		return v
	case *Sym:
		return i.path.Decide(v.T)
	}
	panic(fmt.Sprintf("decide: not a bool: %T", v))
}
