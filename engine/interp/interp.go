// Copyright 2013 The Go Authors. All rights reserved.
// Use of this source code is governed by a BSD-style
// license that can be found in the LICENSE file.

// Package interp is a symbolic-execution fork of
// golang.org/x/tools/go/ssa/interp (v0.29.0).  See /verif/DESIGN.md section 2.
package interp

import (
	"fmt"
	"go/token"
	"go/types"
	"log"
	"os"
	"slices"

	"golang.org/x/tools/go/ssa"
)

type continuation int

const (
	kNext continuation = iota
	kReturn
	kJump
)

// Mode is a bitmask of options affecting the interpreter.
type Mode uint

const (
	DisableRecover Mode = 1 << iota // Disable recover() in target programs; show interpreter crash instead.
	EnableTracing                   // Print a trace of all instructions as they are interpreted.
)

type methodSet map[string]*ssa.Function

// State shared between all interpreted goroutines.
type interpreter struct {
	osArgs     []value                // the value of os.Args
	prog       *ssa.Program           // the SSA program
	globals    map[*ssa.Global]*value // addresses of global variables (immutable)
	mode       Mode                   // interpreter options
	sizes      types.Sizes            // the effective type-sizing function
	goroutines int32                  // atomically updated

	path       *Path
	world      *World
	mapOrder   int
	pendingGo  []pendingGo
	hooks      map[string]value // function replacement requested by the harness
	selectFn   value            // harness-supplied Select oracle
	goMode     int
	opaqueN    int
	noSummary  bool
	jsonN      int
	jsonTokens map[string]value
	classCache map[*ssa.Function]fnClass
}

type pendingGo struct {
	fn   value
	args []value
}

type deferred struct {
	fn    value
	args  []value
	instr *ssa.Defer
	tail  *deferred
}

type frame struct {
	i                *interpreter
	caller           *frame
	fn               *ssa.Function
	block, prevBlock *ssa.BasicBlock
	env              map[ssa.Value]value // dynamic values of SSA variables
	locals           []value
	defers           *deferred
	result           value
	panicking        bool
	panic            interface{}
	phitemps         []value // temporaries for parallel phi assignment
}

func (fr *frame) get(key ssa.Value) value {
	switch key := key.(type) {
	case nil:
		// Hack; simplifies handling of optional attributes
		// such as ssa.Slice.{Low,High}.
		return nil
	case *ssa.Function, *ssa.Builtin:
		return key
	case *ssa.Const:
		return constValue(key)
	case *ssa.Global:
		if r, ok := fr.i.globals[key]; ok {
			return r
		}
		return fr.i.foreignGlobal(key)
	}
	if r, ok := fr.env[key]; ok {
		return r
	}
	panic(fmt.Sprintf("get: no value for %T: %v", key, key.Name()))
}

// runDefer runs a deferred call d.
// It always returns normally, but may set or clear fr.panic.
func (fr *frame) runDefer(d *deferred) {
	if fr.i.mode&EnableTracing != 0 {
		fmt.Fprintf(os.Stderr, "%s: invoking deferred function call\n",
			fr.i.prog.Fset.Position(d.instr.Pos()))
	}
	var ok bool
	defer func() {
		if !ok {
			// Deferred call created a new state of panic.
			r := recover()
			if pa, isAbort := r.(pathAbort); isAbort {
				panic(pa)
			}
			fr.panicking = true
			fr.panic = r
		}
	}()
	call(fr.i, fr, d.instr.Pos(), d.fn, d.args)
	ok = true
}

// runDefers executes fr's deferred function calls in LIFO order.
//
// On entry, fr.panicking indicates a state of panic; if
// true, fr.panic contains the panic value.
//
// On completion, if a deferred call started a panic, or if no
// deferred call recovered from a previous state of panic, then
// runDefers itself panics after the last deferred call has run.
//
// If there was no initial state of panic, or it was recovered from,
// runDefers returns normally.
func (fr *frame) runDefers() {
	for d := fr.defers; d != nil; d = d.tail {
		fr.runDefer(d)
	}
	fr.defers = nil
	if fr.panicking {
		panic(fr.panic) // new panic, or still panicking
	}
}

// lookupMethod returns the method set for type typ, which may be one
// of the interpreter's fake types.
func lookupMethod(i *interpreter, typ types.Type, meth *types.Func) *ssa.Function {
	return i.prog.LookupMethod(typ, meth.Pkg(), meth.Name())
}

// visitInstr interprets a single ssa.Instruction within the activation
// record frame.  It returns a continuation value indicating where to
// read the next instruction from.
func visitInstr(fr *frame, instr ssa.Instruction) continuation {
	switch instr := instr.(type) {
	case *ssa.DebugRef:
		// no-op

	case *ssa.UnOp:
		fr.env[instr] = unop(fr.i, instr, fr.get(instr.X))

	case *ssa.BinOp:
		fr.env[instr] = binop(fr.i, instr.Op, instr.X.Type(), fr.get(instr.X), fr.get(instr.Y))

	case *ssa.Call:
		fn, args := prepareCall(fr, &instr.Call)
		fr.env[instr] = call(fr.i, fr, instr.Pos(), fn, args)

	case *ssa.ChangeInterface:
		fr.env[instr] = fr.get(instr.X)

	case *ssa.ChangeType:
		fr.env[instr] = fr.get(instr.X) // (can't fail)

	case *ssa.Convert:
		fr.env[instr] = conv(fr.i, instr.Type(), instr.X.Type(), fr.get(instr.X))

	case *ssa.SliceToArrayPointer:
		fr.env[instr] = sliceToArrayPointer(instr.Type(), instr.X.Type(), fr.get(instr.X))

	case *ssa.MakeInterface:
		fr.env[instr] = iface{t: instr.X.Type(), v: fr.get(instr.X)}

	case *ssa.Extract:
		fr.env[instr] = fr.get(instr.Tuple).(tuple)[instr.Index]

	case *ssa.Slice:
		fr.env[instr] = slice(fr.i, fr.get(instr.X), fr.get(instr.Low), fr.get(instr.High), fr.get(instr.Max))

	case *ssa.Return:
		switch len(instr.Results) {
		case 0:
		case 1:
			fr.result = fr.get(instr.Results[0])
		default:
			var res []value
			for _, r := range instr.Results {
				res = append(res, fr.get(r))
			}
			fr.result = tuple(res)
		}
		fr.block = nil
		return kReturn

	case *ssa.RunDefers:
		fr.runDefers()

	case *ssa.Panic:
		panic(targetPanic{fr.get(instr.X)})

	case *ssa.Send:
		fr.get(instr.Chan).(chan value) <- fr.get(instr.X)

	case *ssa.Store:
		addr := fr.get(instr.Addr).(*value)
		if addr == nil {
			panic(goPanic("runtime error: invalid memory address or nil pointer dereference"))
		}
		store(mustDeref(instr.Addr.Type()), addr, fr.get(instr.Val))

	case *ssa.If:
		cv := fr.get(instr.Cond)
		if sc, isSym := cv.(*Sym); isSym {
			fr.i.branch(fr, instr, sc)
			return kJump
		}
		succ := 1
		if cv.(bool) {
			succ = 0
		}
		fr.prevBlock, fr.block = fr.block, fr.block.Succs[succ]
		return kJump

	case *ssa.Jump:
		fr.prevBlock, fr.block = fr.block, fr.block.Succs[0]
		return kJump

	case *ssa.Defer:
		fn, args := prepareCall(fr, &instr.Call)
		defers := &fr.defers
		if into := fr.get(instr.DeferStack); into != nil {
			defers = into.(**deferred)
		}
		*defers = &deferred{
			fn:    fn,
			args:  args,
			instr: instr,
			tail:  *defers,
		}

	case *ssa.Go:
		fn, args := prepareCall(fr, &instr.Call)
		fr.i.doGo(fr, instr, fn, args)

	case *ssa.MakeChan:
		fr.env[instr] = make(chan value, asInt64(fr.get(instr.Size)))

	case *ssa.Alloc:
		var addr *value
		if instr.Heap {
			// new
			addr = new(value)
			fr.env[instr] = addr
		} else {
			// local
			addr = fr.env[instr].(*value)
		}
		*addr = zero(mustDeref(instr.Type()))

	case *ssa.MakeSlice:
		tElt := instr.Type().Underlying().(*types.Slice).Elem()
		const maxMake = 1 << 24
		ln := fr.i.boundIntMake(fr.get(instr.Len), maxMake)
		cp := ln
		if c := fr.get(instr.Cap); c != nil {
			cp = fr.i.boundIntMake(c, maxMake)
		}
		if cp < ln {
			panic(goPanic("runtime error: makeslice: cap out of range"))
		}
		slice := make([]value, cp)
		for i := range slice {
			slice[i] = zero(tElt)
		}
		fr.env[instr] = slice[:ln]

	case *ssa.MakeMap:
		var reserve int64
		if instr.Reserve != nil {
			reserve = asInt64(fr.get(instr.Reserve))
		}
		if !fitsInt(reserve, fr.i.sizes) {
			panic(fmt.Sprintf("ssa.MakeMap.Reserve value %d does not fit in int", reserve))
		}
		fr.env[instr] = makeMap(instr.Type().Underlying().(*types.Map).Key(), reserve)

	case *ssa.Range:
		rx := fr.get(instr.X)
		if _, isMap := rx.(*omap); isMap {
			fr.i.path.MapRanges[fr.fn.String()] = true
		}
		fr.env[instr] = rangeIter(fr.i, rx, instr.X.Type())

	case *ssa.Next:
		fr.env[instr] = fr.get(instr.Iter).(iter).next()

	case *ssa.FieldAddr:
		p := fr.get(instr.X).(*value)
		if p == nil {
			panic(goPanic("runtime error: invalid memory address or nil pointer dereference"))
		}
		fr.env[instr] = &(*p).(structure)[instr.Field]

	case *ssa.Field:
		fr.env[instr] = fr.get(instr.X).(structure)[instr.Field]

	case *ssa.IndexAddr:
		x := fr.get(instr.X)
		idx := fr.get(instr.Index)
		switch x := x.(type) {
		case []value:
			if si, isSym := idx.(*Sym); isSym && onlyLoaded(instr) {
				fr.i.checkIndexRange(si, len(x))
				if v, ok := fr.i.symSelect(x, si); ok {
					cell := new(value)
					*cell = v
					fr.env[instr] = cell
					break
				}
			}
			fr.env[instr] = &x[fr.i.checkIndex(idx, len(x))]
		case *value: // *array
			if x == nil {
				panic(goPanic("runtime error: invalid memory address or nil pointer dereference"))
			}
			a := (*x).(array)
			if si, isSym := idx.(*Sym); isSym && onlyLoaded(instr) {
				fr.i.checkIndexRange(si, len(a))
				if v, ok := fr.i.symSelect(a, si); ok {
					cell := new(value)
					*cell = v
					fr.env[instr] = cell
					break
				}
			}
			fr.env[instr] = &a[fr.i.checkIndex(idx, len(a))]
		default:
			panic(fmt.Sprintf("unexpected x type in IndexAddr: %T", x))
		}

	case *ssa.Index:
		x := fr.get(instr.X)
		idx := fr.get(instr.Index)

		switch x := x.(type) {
		case array:
			if si, isSym := idx.(*Sym); isSym {
				fr.i.checkIndexRange(si, len(x))
				if v, ok := fr.i.symSelect(x, si); ok {
					fr.env[instr] = v
					break
				}
			}
			fr.env[instr] = x[fr.i.checkIndex(idx, len(x))]
		case string:
			fr.env[instr] = x[fr.i.checkIndex(idx, len(x))]
		case *symStr:
			bs := fr.i.strBytes(x)
			fr.env[instr] = bs[fr.i.checkIndex(idx, len(bs))]
		default:
			panic(fmt.Sprintf("unexpected x type in Index: %T", x))
		}

	case *ssa.Lookup:
		fr.env[instr] = lookup(fr.i, instr, fr.get(instr.X), fr.get(instr.Index))

	case *ssa.MapUpdate:
		m := fr.get(instr.Map)
		key := fr.get(instr.Key)
		v := fr.get(instr.Value)
		m.(*omap).insert(fr.i, key, v)

	case *ssa.TypeAssert:
		fr.env[instr] = typeAssert(fr.i, instr, fr.get(instr.X).(iface))

	case *ssa.MakeClosure:
		var bindings []value
		for _, binding := range instr.Bindings {
			bindings = append(bindings, fr.get(binding))
		}
		fr.env[instr] = &closure{instr.Fn.(*ssa.Function), bindings}

	case *ssa.Phi:
		log.Fatal("unreachable") // phis are processed at block entry

	case *ssa.Select:
		fr.env[instr] = fr.i.doSelect(fr, instr)

	default:
		panic(fmt.Sprintf("unexpected instruction: %T", instr))
	}

	// if val, ok := instr.(ssa.Value); ok {
	// 	fmt.Println(toString(fr.env[val])) // debugging
	// }

	return kNext
}

// prepareCall determines the function value and argument values for a
// function call in a Call, Go or Defer instruction, performing
// interface method lookup if needed.
func prepareCall(fr *frame, call *ssa.CallCommon) (fn value, args []value) {
	v := fr.get(call.Value)
	if call.Method == nil {
		// Function call.
		fn = v
	} else {
		// Interface method invocation.
		recv, isIface := v.(iface)
		if !isIface {
			panic(fmt.Sprintf("invoke on non-interface %T (%s)", v, call.Method.Name()))
		}
		if recv.t == nil {
			panic(goPanic("runtime error: invalid memory address or nil pointer dereference (method on nil interface)"))
		}
		if f := lookupMethod(fr.i, recv.t, call.Method); f == nil {
			// Unreachable in well-typed programs.
			panic(fmt.Sprintf("method set for dynamic type %v does not contain %s", recv.t, call.Method))
		} else {
			fn = f
		}
		args = append(args, recv.v)
	}
	for _, arg := range call.Args {
		args = append(args, fr.get(arg))
	}
	return
}

// call interprets a call to a function (function, builtin or closure)
// fn with arguments args, returning its result.
// callpos is the position of the callsite.
func call(i *interpreter, caller *frame, callpos token.Pos, fn value, args []value) value {
	switch fn := fn.(type) {
	case *ssa.Function:
		if fn == nil {
			panic("call of nil function") // nil of func type
		}
		return callSSA(i, caller, callpos, fn, args, nil)
	case *closure:
		return callSSA(i, caller, callpos, fn.Fn, args, fn.Env)
	case *ssa.Builtin:
		return callBuiltin(caller, callpos, fn, args)
	}
	panic(fmt.Sprintf("cannot call %T", fn))
}

func loc(fset *token.FileSet, pos token.Pos) string {
	if pos == token.NoPos {
		return ""
	}
	return " at " + fset.Position(pos).String()
}

// executePhis executes the phi-nodes at the start of the current
// block and returns the non-phi instructions.
func executePhis(fr *frame) []ssa.Instruction {
	firstNonPhi := -1
	for i, instr := range fr.block.Instrs {
		if _, ok := instr.(*ssa.Phi); !ok {
			firstNonPhi = i
			break
		}
	}
	// Inv: 0 <= firstNonPhi; every block contains a non-phi.

	nonPhis := fr.block.Instrs[firstNonPhi:]
	if firstNonPhi > 0 {
		phis := fr.block.Instrs[:firstNonPhi]
		// Execute parallel assignment of phis.
		//
		// See "the swap problem" in Briggs et al's "Practical Improvements
		// to the Construction and Destruction of SSA Form" for discussion.
		predIndex := slices.Index(fr.block.Preds, fr.prevBlock)
		fr.phitemps = fr.phitemps[:0]
		for _, phi := range phis {
			phi := phi.(*ssa.Phi)
			if fr.i.mode&EnableTracing != 0 {
				fmt.Fprintln(os.Stderr, "\t", phi.Name(), "=", phi)
			}
			fr.phitemps = append(fr.phitemps, fr.get(phi.Edges[predIndex]))
		}
		for i, phi := range phis {
			fr.env[phi.(*ssa.Phi)] = fr.phitemps[i]
		}
	}
	return nonPhis
}
