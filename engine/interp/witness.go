package interp

// Cheap satisfiability witnesses: before asking the solver whether the other
// side of a branch is feasible, perturb the current model on the variables of
// the condition and evaluate.  A witness found this way is a proof of "sat";
// only "unsat" (and unknown) answers need the solver.  The witness model
// travels with the queued prefix, so the new path starts without a check-sat.

import (
	"math"

	"zsym/smt"
)

func collectVarsConsts(t *smt.Term, vars map[*smt.Term]bool, consts map[smt.Sort]map[uint64]bool, seen map[*smt.Term]bool, budget *int) {
	if seen[t] || *budget <= 0 {
		return
	}
	seen[t] = true
	*budget--
	switch t.Op {
	case smt.OVar:
		vars[t] = true
		return
	case smt.OConst:
		if t.Sort.K != smt.KBool {
			m := consts[t.Sort]
			if m == nil {
				m = map[uint64]bool{}
				consts[t.Sort] = m
			}
			if len(m) < 24 {
				m[t.U] = true
			}
		}
		return
	}
	for _, a := range t.Args {
		collectVarsConsts(a, vars, consts, seen, budget)
	}
}

var fpPool = []float64{0, math.Copysign(0, -1), 1, -1, 2, -2, 0.5, 3, 10, 1e308, -1e308, 5e-324, math.Inf(1), math.Inf(-1), math.NaN(), 7.25}

func poolFor(v *smt.Term, consts map[smt.Sort]map[uint64]bool) []uint64 {
	var out []uint64
	switch v.Sort.K {
	case smt.KBool:
		return []uint64{0, 1}
	case smt.KFP64:
		for c := range consts[v.Sort] {
			out = append(out, c)
		}
		for _, f := range fpPool {
			out = append(out, math.Float64bits(f))
		}
	case smt.KBV:
		m := uint64(1)<<uint(v.Sort.W) - 1
		if v.Sort.W >= 64 {
			m = ^uint64(0)
		}
		for c := range consts[v.Sort] {
			out = append(out, c, (c+1)&m, (c-1)&m)
		}
		// constants of other widths (after extension) are useful too
		for s, cs := range consts {
			if s.K == smt.KBV && s.W != v.Sort.W {
				for c := range cs {
					out = append(out, c&m)
				}
			}
		}
		out = append(out, 0, 1, m, 0x41, 0x4E2D)
		for k := range out {
			out[k] &= m
		}
	}
	return out
}

// tryWitness looks for a model of pc ∧ extra near the current model.
func (p *Path) tryWitness(extra *smt.Term) smt.Model {
	if !p.modelOK || p.model == nil {
		return nil
	}
	vars := map[*smt.Term]bool{}
	consts := map[smt.Sort]map[uint64]bool{}
	budget := 4000
	collectVarsConsts(extra, vars, consts, map[*smt.Term]bool{}, &budget)
	if budget <= 0 || len(vars) == 0 || len(vars) > 12 {
		return nil
	}
	tried := 0
	check := func(cand smt.Model) bool {
		memo := map[*smt.Term]uint64{}
		if r, ok := smt.Eval(extra, cand, memo); !ok || r != 1 {
			return false
		}
		for _, t := range p.pcTerms {
			if r, ok := smt.Eval(t, cand, memo); !ok || r != 1 {
				return false
			}
		}
		return true
	}
	defer func() {
		_ = check
	}()
	for v := range vars {
		for _, c := range poolFor(v, consts) {
			if c == p.model[v.Name] {
				continue
			}
			tried++
			if tried > 400 {
				return nil
			}
			cand := make(smt.Model, len(p.model)+1)
			for k, x := range p.model {
				cand[k] = x
			}
			cand[v.Name] = c
			memo := map[*smt.Term]uint64{}
			if r, ok := smt.Eval(extra, cand, memo); !ok || r != 1 {
				continue
			}
			good := true
			for _, t := range p.pcTerms {
				if r, ok := smt.Eval(t, cand, memo); !ok || r != 1 {
					good = false
					break
				}
			}
			if good {
				p.NWitness++
				return cand
			}
		}
	}
	// joint assignment of up to 3 variables from a small pool
	var vl []*smt.Term
	for v := range vars {
		vl = append(vl, v)
	}
	if len(vl) >= 4 && len(vl) <= 12 {
		// pseudo-random joint assignments (deterministic seed)
		seed := uint64(extra.ID)*2654435761 + 12345
		next := func(n int) int {
			seed = seed*6364136223846793005 + 1442695040888963407
			return int((seed >> 33) % uint64(n))
		}
		pools := make([][]uint64, len(vl))
		for k, v := range vl {
			if v.Sort.K == smt.KFP64 {
				for _, f := range []float64{0, 1, -1, 2, 0.5, 3, -2.5, 4, 10, -7, 0.25} {
					pools[k] = append(pools[k], math.Float64bits(f))
				}
			} else {
				pools[k] = poolFor(v, consts)
			}
		}
		for try := 0; try < 300; try++ {
			cand := make(smt.Model, len(p.model)+1)
			for k, x := range p.model {
				cand[k] = x
			}
			for k, v := range vl {
				if next(3) > 0 || try < 50 {
					cand[v.Name] = pools[k][next(len(pools[k]))]
				}
			}
			if check(cand) {
				p.NWitness++
				return cand
			}
		}
	}
	if len(vl) >= 2 && len(vl) <= 3 {
		small := func(v *smt.Term) []uint64 {
			switch v.Sort.K {
			case smt.KFP64:
				var out []uint64
				for _, f := range []float64{0, 1, -1, 2, 0.5, 3, -2.5} {
					out = append(out, math.Float64bits(f))
				}
				return out
			case smt.KBool:
				return []uint64{0, 1}
			}
			pl := poolFor(v, consts)
			if len(pl) > 7 {
				pl = pl[:7]
			}
			return pl
		}
		pools := make([][]uint64, len(vl))
		for k, v := range vl {
			pools[k] = small(v)
		}
		idx := make([]int, len(vl))
		for {
			cand := make(smt.Model, len(p.model)+1)
			for k, x := range p.model {
				cand[k] = x
			}
			for k, v := range vl {
				cand[v.Name] = pools[k][idx[k]]
			}
			if check(cand) {
				p.NWitness++
				return cand
			}
			k := 0
			for k < len(idx) {
				idx[k]++
				if idx[k] < len(pools[k]) {
					break
				}
				idx[k] = 0
				k++
			}
			if k == len(idx) {
				break
			}
		}
	}
	return nil
}
