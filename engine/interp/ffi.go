package interp

// Foreign-function interface: everything outside the interpreted packages is
// called natively through reflection.  Symbolic arguments are only accepted by
// functions that have a model (models.go); otherwise the path is aborted as
// unsupported (counted, never "passed").

import (
	"fmt"
	"go/types"
	"reflect"
	"strings"

	"golang.org/x/tools/go/ssa"
)

// nativeObj is an opaque native Go value held by the interpreted program.
type nativeObj struct {
	rv reflect.Value
}

func nativeEq(a, b *nativeObj) bool {
	if a == b {
		return true
	}
	if a == nil || b == nil {
		return false
	}
	if a.rv.Kind() == reflect.Ptr && b.rv.Kind() == reflect.Ptr {
		return a.rv.Pointer() == b.rv.Pointer()
	}
	if a.rv.Type().Comparable() && a.rv.Type() == b.rv.Type() {
		return a.rv.Interface() == b.rv.Interface()
	}
	return false
}

// proxyError lets foreign code call Error() on an interpreted error value.
type proxyError struct {
	i *interpreter
	v iface
}

func (p *proxyError) Error() string {
	return p.i.callStringMethod(p.v, "Error")
}

type proxyStringer struct {
	i *interpreter
	v iface
}

func (p *proxyStringer) String() string {
	return p.i.callStringMethod(p.v, "String")
}

// interpRef stands for an interpreted value foreign code cannot look into.
type interpRef struct {
	t string
	v value
}

func (r *interpRef) String() string { return "<" + r.t + ">" }

func (i *interpreter) callStringMethod(v iface, name string) string {
	ms := i.prog.MethodSets.MethodSet(v.t)
	for k := 0; k < ms.Len(); k++ {
		sel := ms.At(k)
		if sel.Obj().Name() == name {
			fn := i.prog.MethodValue(sel)
			r := call(i, nil, 0, fn, []value{v.v})
			switch s := r.(type) {
			case string:
				return s
			case *symStr:
				return i.concretizeDisplay(s)
			}
			return fmt.Sprint(r)
		}
	}
	return "<no " + name + ">"
}

// concretizeDisplay renders a symbolic string for *display only* contexts
// (messages inside errors that no oracle inspects).
func (i *interpreter) concretizeDisplay(s *symStr) string {
	var sb strings.Builder
	for _, r := range s.r {
		switch r := r.(type) {
		case int32:
			sb.WriteRune(r)
		default:
			sb.WriteString("⟨?⟩")
		}
	}
	return sb.String()
}

func hasMethod(i *interpreter, t types.Type, name string) bool {
	ms := i.prog.MethodSets.MethodSet(t)
	for k := 0; k < ms.Len(); k++ {
		if ms.At(k).Obj().Name() == name {
			if sig, ok := ms.At(k).Type().(*types.Signature); ok && sig.Params().Len() == 0 && sig.Results().Len() == 1 {
				return true
			}
		}
	}
	return false
}

var errorRT = reflect.TypeOf((*error)(nil)).Elem()

type unsupportedArg struct{ why string }

// toNative converts interpreter value v to a native value of type rt.
func (i *interpreter) toNative(v value, rt reflect.Type) reflect.Value {
	if no, ok := v.(*nativeObj); ok {
		if no == nil {
			return reflect.Zero(rt)
		}
		if no.rv.Type().AssignableTo(rt) {
			return no.rv
		}
		if no.rv.Type().ConvertibleTo(rt) {
			return no.rv.Convert(rt)
		}
		panic(unsupportedArg{fmt.Sprintf("native %v not assignable to %v", no.rv.Type(), rt)})
	}
	switch rt.Kind() {
	case reflect.Bool, reflect.Int, reflect.Int8, reflect.Int16, reflect.Int32, reflect.Int64,
		reflect.Uint, reflect.Uint8, reflect.Uint16, reflect.Uint32, reflect.Uint64, reflect.Uintptr,
		reflect.Float32, reflect.Float64:
		if isSym(v) {
			panic(unsupportedArg{"symbolic scalar argument"})
		}
		return reflect.ValueOf(v).Convert(rt)
	case reflect.String:
		switch s := v.(type) {
		case string:
			return reflect.ValueOf(s).Convert(rt)
		case *symStr:
			panic(unsupportedArg{"symbolic string argument"})
		}
	case reflect.Slice:
		s, ok := v.([]value)
		if !ok {
			break
		}
		if s == nil {
			return reflect.Zero(rt)
		}
		out := reflect.MakeSlice(rt, len(s), len(s))
		for k, e := range s {
			out.Index(k).Set(i.toNative(e, rt.Elem()))
		}
		return out
	case reflect.Interface:
		itf, ok := v.(iface)
		if !ok {
			break
		}
		if itf.t == nil {
			return reflect.Zero(rt)
		}
		var dyn reflect.Value
		switch x := itf.v.(type) {
		case *nativeObj:
			dyn = x.rv
		case bool, int, int8, int16, int32, int64, uint, uint8, uint16, uint32, uint64, uintptr, float32, float64, string:
			if hasMethod(i, itf.t, "Error") {
				dyn = reflect.ValueOf(&proxyError{i, itf})
			} else if hasMethod(i, itf.t, "String") {
				dyn = reflect.ValueOf(&proxyStringer{i, itf})
			} else {
				dyn = reflect.ValueOf(x)
			}
		case *Sym, *symStr:
			panic(unsupportedArg{"symbolic value in interface argument"})
		case []value:
			// slices of scalars/strings inside interfaces ([]string, []rune, ...)
			if st, ok := itf.t.Underlying().(*types.Slice); ok {
				if ert := basicRT(st.Elem()); ert != nil {
					dyn = i.toNative(x, reflect.SliceOf(ert))
				}
			}
			if !dyn.IsValid() {
				dyn = reflect.ValueOf(&interpRef{itf.t.String(), x})
			}
		default:
			if hasMethod(i, itf.t, "Error") {
				dyn = reflect.ValueOf(&proxyError{i, itf})
			} else if hasMethod(i, itf.t, "String") {
				dyn = reflect.ValueOf(&proxyStringer{i, itf})
			} else {
				dyn = reflect.ValueOf(&interpRef{itf.t.String(), itf.v})
			}
		}
		if !dyn.Type().AssignableTo(rt) {
			panic(unsupportedArg{fmt.Sprintf("%v does not implement %v natively", itf.t, rt)})
		}
		out := reflect.New(rt).Elem()
		out.Set(dyn)
		return out
	case reflect.Func:
		if v == nil {
			return reflect.Zero(rt)
		}
		if f, ok := v.(*ssa.Function); ok && f == nil {
			return reflect.Zero(rt)
		}
		fnv := v
		return reflect.MakeFunc(rt, func(in []reflect.Value) []reflect.Value {
			args := make([]value, len(in))
			for k := range in {
				args[k] = i.fromNativeRT(in[k])
			}
			r := call(i, nil, 0, fnv, args)
			switch rt.NumOut() {
			case 0:
				return nil
			case 1:
				return []reflect.Value{i.toNative(r, rt.Out(0))}
			}
			tu := r.(tuple)
			outs := make([]reflect.Value, len(tu))
			for k := range tu {
				outs[k] = i.toNative(tu[k], rt.Out(k))
			}
			return outs
		})
	case reflect.Ptr, reflect.Map, reflect.Chan, reflect.Struct, reflect.UnsafePointer:
		switch p := v.(type) {
		case *value:
			if p == nil {
				return reflect.Zero(rt)
			}
		case *omap:
			if p == nil {
				return reflect.Zero(rt)
			}
			if rt.Kind() == reflect.Map {
				out := reflect.MakeMapWithSize(rt, len(p.keys))
				for k := range p.keys {
					out.SetMapIndex(i.toNative(p.keys[k], rt.Key()), i.toNative(p.vals[k], rt.Elem()))
				}
				return out
			}
		}
	}
	panic(unsupportedArg{fmt.Sprintf("cannot pass %T as %v", v, rt)})
}

func basicRT(t types.Type) reflect.Type {
	b, ok := t.Underlying().(*types.Basic)
	if !ok {
		return nil
	}
	switch b.Kind() {
	case types.Bool:
		return reflect.TypeOf(false)
	case types.Int:
		return reflect.TypeOf(int(0))
	case types.Int8:
		return reflect.TypeOf(int8(0))
	case types.Int16:
		return reflect.TypeOf(int16(0))
	case types.Int32:
		return reflect.TypeOf(int32(0))
	case types.Int64:
		return reflect.TypeOf(int64(0))
	case types.Uint:
		return reflect.TypeOf(uint(0))
	case types.Uint8:
		return reflect.TypeOf(uint8(0))
	case types.Uint16:
		return reflect.TypeOf(uint16(0))
	case types.Uint32:
		return reflect.TypeOf(uint32(0))
	case types.Uint64:
		return reflect.TypeOf(uint64(0))
	case types.Float32:
		return reflect.TypeOf(float32(0))
	case types.Float64:
		return reflect.TypeOf(float64(0))
	case types.String:
		return reflect.TypeOf("")
	}
	return nil
}

// fromNative converts a native result to an interpreter value of static type t.
func (i *interpreter) fromNative(rv reflect.Value, t types.Type) value {
	switch ut := t.Underlying().(type) {
	case *types.Basic:
		return scalarFromRV(rv, ut.Kind())
	case *types.Slice:
		if rv.IsNil() {
			return []value(nil)
		}
		if _, ok := ut.Elem().Underlying().(*types.Basic); ok || isInterface(ut.Elem()) {
			out := make([]value, rv.Len(), rv.Cap())
			for k := 0; k < rv.Len(); k++ {
				out[k] = i.fromNative(rv.Index(k), ut.Elem())
			}
			full := out[:cap(out)]
			for k := rv.Len(); k < len(full); k++ {
				full[k] = zero(ut.Elem())
			}
			return out
		}
	case *types.Interface:
		if rv.Kind() == reflect.Interface {
			if rv.IsNil() {
				return iface{}
			}
			rv = rv.Elem()
		}
		return i.ifaceFromNative(rv)
	case *types.Signature:
		if rv.IsNil() {
			return (*ssa.Function)(nil)
		}
	case *types.Pointer, *types.Map, *types.Chan:
		if rv.IsNil() {
			// typed nil of a foreign pointer type: keep as nil nativeObj
			return (*nativeObj)(nil)
		}
	}
	return &nativeObj{rv}
}

func isInterface(t types.Type) bool {
	_, ok := t.Underlying().(*types.Interface)
	return ok
}

func scalarFromRV(rv reflect.Value, k types.BasicKind) value {
	switch k {
	case types.Bool, types.UntypedBool:
		return rv.Bool()
	case types.String, types.UntypedString:
		return rv.String()
	case types.Float64, types.UntypedFloat:
		return rv.Float()
	case types.Float32:
		return float32(rv.Float())
	case types.Int, types.Int8, types.Int16, types.Int32, types.Int64, types.UntypedInt, types.UntypedRune:
		if k == types.UntypedInt {
			k = types.Int
		}
		if k == types.UntypedRune {
			k = types.Int32
		}
		return concreteOfKind(k, uint64(rv.Int()))
	case types.Uint, types.Uint8, types.Uint16, types.Uint32, types.Uint64, types.Uintptr:
		return concreteOfKind(k, rv.Uint())
	}
	panic(fmt.Sprintf("scalarFromRV: kind %v", k))
}

// fromNativeRT converts a native value without static type information.
func (i *interpreter) fromNativeRT(rv reflect.Value) value {
	switch rv.Kind() {
	case reflect.Bool:
		return rv.Bool()
	case reflect.Int:
		return int(rv.Int())
	case reflect.Int8:
		return int8(rv.Int())
	case reflect.Int16:
		return int16(rv.Int())
	case reflect.Int32:
		return int32(rv.Int())
	case reflect.Int64:
		return rv.Int()
	case reflect.Uint:
		return uint(rv.Uint())
	case reflect.Uint8:
		return uint8(rv.Uint())
	case reflect.Uint16:
		return uint16(rv.Uint())
	case reflect.Uint32:
		return uint32(rv.Uint())
	case reflect.Uint64:
		return rv.Uint()
	case reflect.Uintptr:
		return uintptr(rv.Uint())
	case reflect.Float32:
		return float32(rv.Float())
	case reflect.Float64:
		return rv.Float()
	case reflect.String:
		return rv.String()
	case reflect.Interface:
		if rv.IsNil() {
			return iface{}
		}
		return i.ifaceFromNative(rv.Elem())
	}
	return &nativeObj{rv}
}

// ifaceFromNative wraps a native dynamic value into an interpreter interface.
func (i *interpreter) ifaceFromNative(rv reflect.Value) value {
	switch p := rv.Interface().(type) {
	case *proxyError:
		return p.v
	case *proxyStringer:
		return p.v
	case *interpRef:
		_ = p
	}
	t := i.world.typeOfReflect(rv.Type())
	if b, ok := t.Underlying().(*types.Basic); ok && t != opaqueNative {
		return iface{t: t, v: scalarFromRV(rv, b.Kind())}
	}
	return iface{t: t, v: &nativeObj{rv}}
}

var opaqueNative = types.NewNamed(types.NewTypeName(0, nil, "nativeOpaque", nil), types.NewStruct(nil, nil), nil)

// typeOfReflect finds the go/types type corresponding to a native type.
func (w *World) typeOfReflect(rt reflect.Type) types.Type {
	if rt.PkgPath() != "" && rt.Name() != "" {
		if p := w.byPath[rt.PkgPath()]; p != nil {
			if o := p.Pkg.Scope().Lookup(rt.Name()); o != nil {
				if tn, ok := o.(*types.TypeName); ok {
					return tn.Type()
				}
			}
		}
		return opaqueNative
	}
	switch rt.Kind() {
	case reflect.Ptr:
		e := w.typeOfReflect(rt.Elem())
		if e == opaqueNative {
			return opaqueNative
		}
		return types.NewPointer(e)
	case reflect.Slice:
		e := w.typeOfReflect(rt.Elem())
		if e == opaqueNative {
			return opaqueNative
		}
		return types.NewSlice(e)
	case reflect.Bool:
		return types.Typ[types.Bool]
	case reflect.Int:
		return types.Typ[types.Int]
	case reflect.Int8:
		return types.Typ[types.Int8]
	case reflect.Int16:
		return types.Typ[types.Int16]
	case reflect.Int32:
		return types.Typ[types.Int32]
	case reflect.Int64:
		return types.Typ[types.Int64]
	case reflect.Uint:
		return types.Typ[types.Uint]
	case reflect.Uint8:
		return types.Typ[types.Uint8]
	case reflect.Uint16:
		return types.Typ[types.Uint16]
	case reflect.Uint32:
		return types.Typ[types.Uint32]
	case reflect.Uint64:
		return types.Typ[types.Uint64]
	case reflect.Float32:
		return types.Typ[types.Float32]
	case reflect.Float64:
		return types.Typ[types.Float64]
	case reflect.String:
		return types.Typ[types.String]
	}
	return opaqueNative
}

func anySymbolic(args []value) bool {
	for _, a := range args {
		switch a := a.(type) {
		case *Sym, *symStr:
			return true
		case iface:
			if anySymbolic([]value{a.v}) {
				return true
			}
		case []value:
			if len(a) <= 64 && anySymbolic(a) {
				return true
			}
		}
	}
	return false
}

// ffiCall calls foreign package-level function or method fn natively.
func (i *interpreter) ffiCall(fr *frame, fn *ssa.Function, args []value) (res value) {
	name := fn.String()
	if strings.HasSuffix(name, ".init") || strings.Contains(name, ".init#") {
		return nil // foreign package initialisers already ran natively
	}
	if m, ok := ffiModels[name]; ok {
		if r, handled := m(i, fr, args); handled {
			return r
		}
	}
	target, ok := ffiFuncs[name]
	if !ok {
		if fn.Signature.Recv() != nil && len(args) > 0 {
			// method of a foreign type on an interpreted-side value (e.g. a
			// named scalar type from the standard library)
			if rv, ok2 := i.nativeReceiver(fn, args[0]); ok2 {
				return i.callNative(fn, rv.MethodByName(fn.Name()), args[1:], name)
			}
		}
		panic(pathAbort{abortUnsupported, "foreign function not in FFI registry: " + name})
	}
	return i.callNative(fn, target, args, name)
}

func (i *interpreter) nativeReceiver(fn *ssa.Function, recv value) (reflect.Value, bool) {
	switch r := recv.(type) {
	case *nativeObj:
		return r.rv, true
	}
	return reflect.Value{}, false
}

func (i *interpreter) ffiMethod(fr *frame, fn *ssa.Function, recv *nativeObj, args []value) value {
	name := fn.String()
	if m, ok := ffiModels[name]; ok {
		if r, handled := m(i, fr, append([]value{recv}, args...)); handled {
			return r
		}
	}
	if recv == nil {
		panic(goPanic("runtime error: invalid memory address or nil pointer dereference (foreign method on nil)"))
	}
	m := recv.rv.MethodByName(fn.Name())
	if !m.IsValid() && recv.rv.CanAddr() {
		m = recv.rv.Addr().MethodByName(fn.Name())
	}
	if !m.IsValid() {
		panic(pathAbort{abortUnsupported, "no native method " + name + " on " + recv.rv.Type().String()})
	}
	return i.callNative(fn, m, args, name)
}

func (i *interpreter) callNative(fn *ssa.Function, target reflect.Value, args []value, name string) (res value) {
	defer func() {
		if r := recover(); r != nil {
			switch r := r.(type) {
			case unsupportedArg:
				panic(pathAbort{abortUnsupported, "FFI " + name + ": " + r.why})
			case pathAbort, targetPanic, runtimePanic:
				panic(r)
			default:
				// a genuine panic inside foreign code propagates into the target
				panic(runtimePanic{fmt.Sprintf("panic in %s: %v", name, r)})
			}
		}
	}()
	ft := target.Type()
	in := make([]reflect.Value, 0, len(args))
	type back struct {
		src []value
		nat reflect.Value
		et  types.Type
	}
	var backs []back
	sigParams := fn.Signature.Params()
	for k, a := range args {
		var pt reflect.Type
		if ft.IsVariadic() && k >= ft.NumIn()-1 {
			pt = ft.In(ft.NumIn() - 1) // the slice type; SSA passes the slice itself
		} else {
			pt = ft.In(k)
		}
		nv := i.toNative(a, pt)
		in = append(in, nv)
		if s, ok := a.([]value); ok && pt.Kind() == reflect.Slice && k < sigParams.Len() {
			if st, ok := sigParams.At(k).Type().Underlying().(*types.Slice); ok {
				if _, isB := st.Elem().Underlying().(*types.Basic); isB {
					backs = append(backs, back{s, nv, st.Elem()})
				}
			}
		}
	}
	var outs []reflect.Value
	if ft.IsVariadic() {
		outs = target.CallSlice(in)
	} else {
		outs = target.Call(in)
	}
	for _, b := range backs {
		for k := range b.src {
			b.src[k] = i.fromNative(b.nat.Index(k), b.et)
		}
	}
	results := fn.Signature.Results()
	switch results.Len() {
	case 0:
		return nil
	case 1:
		return i.fromNative(outs[0], results.At(0).Type())
	}
	tu := make(tuple, results.Len())
	for k := range tu {
		tu[k] = i.fromNative(outs[k], results.At(k).Type())
	}
	return tu
}

// foreignGlobal materialises a global variable of a foreign package.
func (i *interpreter) foreignGlobal(g *ssa.Global) *value {
	name := g.Pkg.Pkg.Path() + "." + g.Name()
	if addr, ok := ffiGlobals[name]; ok {
		v := i.fromNative(addr.Elem(), mustDeref(g.Type()))
		cell := new(value)
		*cell = v
		i.globals[g] = cell
		return cell
	}
	panic(pathAbort{abortUnsupported, "foreign global not in FFI registry: " + name})
}
