package interp

// Insertion-ordered map used for every interpreted Go map.  Re-running a path
// with the same decision prefix is therefore deterministic; iteration order
// becomes a (pure) decision only when the harness asks for it.  Keys may be
// symbolic: lookups then fork over equality with the stored keys.

import (
	"go/types"
)

type omap struct {
	keyT types.Type
	keys []value
	vals []value
	idx  map[value]int // fast path for concrete scalar/string/pointer keys
	nsym int           // number of stored keys that are not in idx
}

func makeMap(kt types.Type, reserve int64) value {
	return &omap{keyT: kt, idx: map[value]int{}}
}

func fastKey(k value) bool {
	switch k.(type) {
	case bool, int, int8, int16, int32, int64, uint, uint8, uint16, uint32, uint64, uintptr, string, *value, float64, float32:
		return true
	}
	return false
}

// find returns the position of key k or -1.
func (m *omap) find(i *interpreter, k value) int {
	if m == nil {
		return -1
	}
	if fastKey(k) {
		if p, ok := m.idx[k]; ok {
			return p
		}
		if m.nsym == 0 {
			return -1
		}
		for p, kk := range m.keys {
			if fastKey(kk) {
				continue
			}
			if equals(i, m.keyT, kk, k) {
				return p
			}
		}
		return -1
	}
	for p, kk := range m.keys {
		if equals(i, m.keyT, kk, k) {
			return p
		}
	}
	return -1
}

func (m *omap) lookup(i *interpreter, k value) (value, bool) {
	p := m.find(i, k)
	if p < 0 {
		return nil, false
	}
	return m.vals[p], true
}

func (m *omap) insert(i *interpreter, k, v value) {
	if m == nil {
		panic(goPanic("assignment to entry in nil map"))
	}
	p := m.find(i, k)
	if p >= 0 {
		m.vals[p] = v
		return
	}
	m.keys = append(m.keys, k)
	m.vals = append(m.vals, v)
	if fastKey(k) {
		m.idx[k] = len(m.keys) - 1
	} else {
		m.nsym++
	}
}

func (m *omap) delete(i *interpreter, k value) {
	p := m.find(i, k)
	if p < 0 {
		return
	}
	if !fastKey(m.keys[p]) {
		m.nsym--
	}
	m.keys = append(m.keys[:p:p], m.keys[p+1:]...)
	m.vals = append(m.vals[:p:p], m.vals[p+1:]...)
	m.idx = map[value]int{}
	for q, kk := range m.keys {
		if fastKey(kk) {
			m.idx[kk] = q
		}
	}
}

func (m *omap) len() int {
	if m == nil {
		return 0
	}
	return len(m.keys)
}

// omapIter iterates over a snapshot of the keys (entries deleted during the
// iteration are skipped, as Go does; entries added are not visited).
type omapIter struct {
	i    *interpreter
	m    *omap
	keys []value
	done []bool
	left int
}

func newOmapIter(i *interpreter, m *omap) *omapIter {
	it := &omapIter{i: i, m: m}
	if m != nil {
		it.keys = append([]value(nil), m.keys...)
		it.done = make([]bool, len(it.keys))
		it.left = len(it.keys)
	}
	return it
}

func (it *omapIter) next() tuple {
	for it.left > 0 {
		// choose which of the remaining keys comes next
		pick := 0
		switch it.i.mapOrder {
		case mapOrderSymbolic:
			// stated bound: maps of up to 4 entries are iterated in every
			// order; larger ones in insertion order
			if it.left > 1 && len(it.keys) <= 4 {
				pick = it.i.path.ForkSchedule(it.left)
			}
		case mapOrderReverse:
			pick = it.left - 1
		}
		pos := -1
		for p := range it.keys {
			if it.done[p] {
				continue
			}
			if pick == 0 {
				pos = p
				break
			}
			pick--
		}
		it.done[pos] = true
		it.left--
		k := it.keys[pos]
		if q := it.m.find(it.i, k); q >= 0 {
			return tuple{true, k, it.m.vals[q]}
		}
	}
	return tuple{false, nil, nil}
}

const (
	mapOrderInsertion = 0
	mapOrderSymbolic  = 1
	mapOrderReverse   = 2
)
