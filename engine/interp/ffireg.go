package interp

import (
	"bufio"
	"bytes"
	"encoding/json"
	"errors"
	"fmt"
	"io"
	"math"
	"os"
	"path"
	"path/filepath"
	"reflect"
	"regexp"
	"sort"
	"strconv"
	"strings"
	"time"
	"unicode"
)

func rv(x interface{}) reflect.Value { return reflect.ValueOf(x) }

// ffiFuncs: foreign package-level functions callable from interpreted code.
var ffiFuncs = map[string]reflect.Value{
	"fmt.Sprintf":  rv(fmt.Sprintf),
	"fmt.Sprint":   rv(fmt.Sprint),
	"fmt.Sprintln": rv(fmt.Sprintln),
	"fmt.Errorf":   rv(fmt.Errorf),
	"fmt.Fprintf":  rv(fmt.Fprintf),
	"fmt.Printf":   rv(fmt.Printf),
	"fmt.Println":  rv(fmt.Println),
	"fmt.Print":    rv(fmt.Print),
	"errors.New":   rv(errors.New),
	"errors.Is":    rv(errors.Is),

	"strings.Join":         rv(strings.Join),
	"strings.Replace":      rv(strings.Replace),
	"strings.ReplaceAll":   rv(strings.ReplaceAll),
	"strings.Repeat":       rv(strings.Repeat),
	"strings.HasPrefix":    rv(strings.HasPrefix),
	"strings.HasSuffix":    rv(strings.HasSuffix),
	"strings.TrimPrefix":   rv(strings.TrimPrefix),
	"strings.TrimSuffix":   rv(strings.TrimSuffix),
	"strings.TrimSpace":    rv(strings.TrimSpace),
	"strings.Compare":      rv(strings.Compare),
	"strings.Contains":     rv(strings.Contains),
	"strings.Split":        rv(strings.Split),
	"strings.ToUpper":      rv(strings.ToUpper),
	"strings.ToLower":      rv(strings.ToLower),
	"strings.NewReplacer":  rv(strings.NewReplacer),
	"strings.Index":        rv(strings.Index),
	"strings.TrimLeft":     rv(strings.TrimLeft),
	"strings.TrimRight":    rv(strings.TrimRight),
	"strings.Trim":         rv(strings.Trim),
	"strings.LastIndex":    rv(strings.LastIndex),
	"strings.EqualFold":    rv(strings.EqualFold),
	"strings.ContainsRune": rv(strings.ContainsRune),
	"strings.Count":        rv(strings.Count),
	"strings.Fields":       rv(strings.Fields),
	"strings.Title":        rv(strings.Title),

	"strconv.ParseFloat":  rv(strconv.ParseFloat),
	"strconv.ParseInt":    rv(strconv.ParseInt),
	"strconv.Atoi":        rv(strconv.Atoi),
	"strconv.Itoa":        rv(strconv.Itoa),
	"strconv.FormatInt":   rv(strconv.FormatInt),
	"strconv.FormatFloat": rv(strconv.FormatFloat),
	"strconv.Quote":       rv(strconv.Quote),

	"math.Floor":           rv(math.Floor),
	"math.Ceil":            rv(math.Ceil),
	"math.Trunc":           rv(math.Trunc),
	"math.Sqrt":            rv(math.Sqrt),
	"math.Abs":             rv(math.Abs),
	"math.IsNaN":           rv(math.IsNaN),
	"math.IsInf":           rv(math.IsInf),
	"math.Inf":             rv(math.Inf),
	"math.NaN":             rv(math.NaN),
	"math.Pow":             rv(math.Pow),
	"math.Mod":             rv(math.Mod),
	"math.Round":           rv(math.Round),
	"math.Float64bits":     rv(math.Float64bits),
	"math.Float64frombits": rv(math.Float64frombits),
	"math.Copysign":        rv(math.Copysign),
	"math.Signbit":         rv(math.Signbit),
	"math.Max":             rv(math.Max),
	"math.Min":             rv(math.Min),
	"math.Log10":           rv(math.Log10),
	"math.Log":             rv(math.Log),
	"math.Exp":             rv(math.Exp),

	"math/rand.Float64": rv(func() float64 { return 0.5 }), // deterministic stub
	"math/rand.Int63":   rv(func() int64 { return 4 }),
	"math/rand.Intn":    rv(func(n int) int { return 0 }),
	"math/rand.Seed":    rv(func(int64) {}),

	"regexp.MustCompile": rv(regexp.MustCompile),
	"regexp.Compile":     rv(regexp.Compile),

	"sort.Strings": rv(sort.Strings),
	"sort.Slice":   rv(sort.Slice),
	"sort.Ints":    rv(sort.Ints),

	"bytes.NewReader": rv(bytes.NewReader),
	"bytes.NewBuffer": rv(bytes.NewBuffer),
	"io.ReadAll":      rv(io.ReadAll),
	"io.WriteString":  rv(io.WriteString),
	"os.Open":         rv(os.Open),
	"os.Stat":         rv(os.Stat),
	"os.IsNotExist":   rv(os.IsNotExist),
	"os.ReadDir":      rv(os.ReadDir),
	"os.ReadFile":     rv(os.ReadFile),
	"os.WriteFile": rv(func(name string, data []byte, perm os.FileMode) error {
		// contract stub: no real I/O; names under /tmp/zsym-w succeed
		if strings.HasPrefix(name, "/tmp/zsym-w") {
			return nil
		}
		return errors.New("open " + name + ": no such file or directory")
	}),
	"os.Getenv":           rv(func(string) string { return "" }),
	"os.Getpid":           rv(func() int { return 4242 }),
	"os.Getppid":          rv(func() int { return 4241 }),
	"path.Join":           rv(path.Join),
	"path/filepath.Join":  rv(filepath.Join),
	"path/filepath.Split": rv(filepath.Split),
	"path/filepath.Dir":   rv(filepath.Dir),
	"path/filepath.Base":  rv(filepath.Base),
	"path/filepath.Abs":   rv(filepath.Abs),
	"path/filepath.Ext":   rv(filepath.Ext),

	"encoding/json.Marshal":       rv(json.Marshal),
	"encoding/json.Unmarshal":     rv(json.Unmarshal),
	"encoding/json.NewDecoder":    rv(json.NewDecoder),
	"encoding/json.NewEncoder":    rv(json.NewEncoder),
	"encoding/json.Valid":         rv(json.Valid),
	"encoding/json.MarshalIndent": rv(json.MarshalIndent),

	"strings.NewReader":     rv(strings.NewReader),
	"strings.IndexRune":     rv(strings.IndexRune),
	"strings.IndexByte":     rv(strings.IndexByte),
	"strings.IndexAny":      rv(strings.IndexAny),
	"strings.ContainsAny":   rv(strings.ContainsAny),
	"strings.SplitN":        rv(strings.SplitN),
	"strings.Cut":           rv(strings.Cut),
	"strings.ToValidUTF8":   rv(strings.ToValidUTF8),
	"bytes.NewBufferString": rv(bytes.NewBufferString),
	"bytes.Equal":           rv(bytes.Equal),
	"bytes.Contains":        rv(bytes.Contains),
	"bytes.TrimSpace":       rv(bytes.TrimSpace),
	"bytes.HasPrefix":       rv(bytes.HasPrefix),
	"sort.Float64s":         rv(sort.Float64s),
	"sort.SearchInts":       rv(sort.SearchInts),
	"strconv.FormatBool":    rv(strconv.FormatBool),
	"strconv.ParseBool":     rv(strconv.ParseBool),
	"strconv.ParseUint":     rv(strconv.ParseUint),
	"strconv.Unquote":       rv(strconv.Unquote),
	"strconv.AppendInt":     rv(strconv.AppendInt),
	"strconv.QuoteToASCII":  rv(strconv.QuoteToASCII),
	"errors.As":             rv(errors.As),
	"errors.Unwrap":         rv(errors.Unwrap),
	"io.NopCloser":          rv(io.NopCloser),
	"io.LimitReader":        rv(io.LimitReader),
	"io.MultiReader":        rv(io.MultiReader),
	"io.Copy":               rv(io.Copy),
	"bufio.NewReader":       rv(bufio.NewReader),
	"bufio.NewScanner":      rv(bufio.NewScanner),
	"bufio.NewWriter":       rv(bufio.NewWriter),

	"time.Now":   rv(func() time.Time { return time.Unix(1700000000, 0) }),
	"time.Sleep": rv(func(time.Duration) {}),

	"unicode.IsSpace":  rv(unicode.IsSpace),
	"unicode.IsDigit":  rv(unicode.IsDigit),
	"unicode.IsLetter": rv(unicode.IsLetter),
	"unicode.IsUpper":  rv(unicode.IsUpper),
	"unicode.ToUpper":  rv(unicode.ToUpper),
	"unicode.ToLower":  rv(unicode.ToLower),
}

// ffiGlobals: addresses of foreign package variables read by interpreted code.
var ffiGlobals = map[string]reflect.Value{
	"io.EOF":              rv(&io.EOF),
	"io.ErrUnexpectedEOF": rv(&io.ErrUnexpectedEOF),
	"io.ErrShortWrite":    rv(&io.ErrShortWrite),
	"io.ErrShortBuffer":   rv(&io.ErrShortBuffer),
	"io.ErrNoProgress":    rv(&io.ErrNoProgress),
	"os.Stdout":           rv(&os.Stdout),
	"os.Stderr":           rv(&os.Stderr),
	"os.Args":             rv(&os.Args),
	"os.ErrProcessDone":   rv(&os.ErrProcessDone),
	"os.ErrNotExist":      rv(&os.ErrNotExist),
}

// externals are functions implemented directly by the engine.
var externals = map[string]func(fr *frame, args []value) value{}

func init() {
	externals["(runtime.errorString).Error"] = func(fr *frame, args []value) value {
		return args[0].(string)
	}
	// the engine runs goroutines inline / sequentialised: locks are no-ops
	for _, n := range []string{"(*sync.Mutex).Lock", "(*sync.Mutex).Unlock", "(*sync.RWMutex).Lock", "(*sync.RWMutex).Unlock", "(*sync.RWMutex).RLock", "(*sync.RWMutex).RUnlock", "(*sync.WaitGroup).Add", "(*sync.WaitGroup).Done", "(*sync.WaitGroup).Wait"} {
		externals[n] = func(fr *frame, args []value) value { return nil }
	}
	externals["(runtime.errorString).RuntimeError"] = func(fr *frame, args []value) value { return nil }
	externals["(*runtime.errorString).Error"] = func(fr *frame, args []value) value {
		return (*args[0].(*value)).(string)
	}
}
