package interp

import (
	"fmt"
	"go/types"
	"os"
	"os/exec"
	"runtime"
	"sort"
	"strings"
	"sync"
	"time"

	"golang.org/x/tools/go/ssa"
	"zsym/smt"
)

type Options struct {
	Workers         int
	SolverBin       string
	TimeoutMs       int
	MaxSteps        int64
	MaxPaths        int
	Deadline        time.Time
	KeepSample      int
	StopOnViolation bool
}

type PathResult struct {
	Outcome          string // ok, violation, panic, unsupported, infeasible, budget, solver-unknown, engine, done
	Msg              string
	Trace            []int32
	Forks            []int32
	Inputs           map[string]interface{}
	Reached          []string
	Observed         []string
	ObservedSymbolic bool
	Scheduled        bool // the path depends on engine-chosen schedule decisions (map order): no deterministic native replay
	Violation        *Violation
	Steps            int64
	Notes            map[string]int
	Tables           map[string][]string
}

type Report struct {
	Harness        string
	Paths          int
	Outcomes       map[string]int
	Violations     []*Violation
	Samples        []PathResult
	Fallback       []PathResult // paths the engine could not follow (unsupported construct, engine fault): replayed natively with the inputs of the path prefix
	Reached        map[string]int
	Notes          map[string]int
	Msgs           map[string]int // abort reasons
	Decisions      int
	SolverCalls    int
	ModelHits      int
	Asserts        int
	AssertSyn      int
	AssertQuery    int
	Unknowns       int
	SolverErrors   int
	Steps          int64
	SolverTime     time.Duration
	Wall           time.Duration
	Funcs          map[string]bool
	Truncated      bool
	MaxTraceLen    int
	MapRanges      map[string]bool
	ViolationCount int
	perLabel       map[string]int
}

// RunPath executes one path of harness function fn under prefix.
func (w *World) RunPath(fn *ssa.Function, s *smt.Solver, pp PendingPath, maxSteps int64) (res PathResult, p *Path) {
	s.Reset()
	p = NewPath(s, pp.Prefix, maxSteps, pp.Model)
	p.WallDeadline = w.pathDeadline
	i := &interpreter{
		prog:       w.Prog,
		globals:    make(map[*ssa.Global]*value),
		sizes:      w.sizes,
		path:       p,
		world:      w,
		classCache: map[*ssa.Function]fnClass{},
	}
	for pkg := range w.interpPkg {
		for _, m := range pkg.Members {
			if g, ok := m.(*ssa.Global); ok {
				cell := zero(mustDeref(g.Type()))
				i.globals[g] = &cell
			}
		}
	}
	res.Outcome = "ok"
	func() {
		defer func() {
			r := recover()
			if r == nil {
				return
			}
			switch r := r.(type) {
			case pathAbort:
				res.Outcome = r.kind.String()
				res.Msg = r.msg
			case targetPanic:
				res.Outcome = "panic"
				res.Msg = "uncaught target panic: " + toString(r.v)
			case runtimePanic:
				res.Outcome = "panic"
				res.Msg = "uncaught target run-time error: " + r.msg
			default:
				buf := make([]byte, 4096)
				buf = buf[:runtime.Stack(buf, false)]
				res.Outcome = "engine"
				res.Msg = fmt.Sprintf("engine panic: %v | %s", r, firstFrames(string(buf)))
			}
		}()
		if init := w.Harness.Func("init"); init != nil {
			call(i, nil, 0, init, nil)
		}
		call(i, nil, 0, fn, nil)
	}()
	if res.Outcome == "ok" || res.Outcome == "done" || res.Outcome == "unsupported" || res.Outcome == "engine" {
		// make sure the reported inputs satisfy the path condition
		func() {
			defer func() { recover() }()
			if len(p.Inputs) > 0 && !p.replaying() {
				p.ensureModel()
			}
		}()
	}
	res.Trace = p.Trace
	res.Forks = p.Forks
	res.Inputs = p.InputValues()
	res.Reached = p.ReachedList()
	res.Observed = p.Observed
	res.ObservedSymbolic = p.ObservedSymbolic
	res.Scheduled = len(p.Schedule) > 0
	res.Violation = p.Violation
	res.Steps = p.Steps
	res.Notes = p.Notes
	res.Tables = p.Tables
	return res, p
}

// Explore runs the harness over all paths (DFS, parallel workers).
func (w *World) Explore(name string, opt Options) (*Report, error) {
	fn := w.Harness.Func(name)
	if fn == nil {
		return nil, fmt.Errorf("harness function %s not found", name)
	}
	if opt.Workers <= 0 {
		opt.Workers = 1
	}
	if opt.MaxSteps == 0 {
		opt.MaxSteps = 2_000_000
	}
	w.pathDeadline = time.Time{}
	if !opt.Deadline.IsZero() {
		w.pathDeadline = opt.Deadline.Add(60 * time.Second)
	}
	if opt.SolverBin == "" {
		opt.SolverBin = DefaultSolver()
	}
	if opt.TimeoutMs == 0 {
		opt.TimeoutMs = 10000
	}
	if opt.KeepSample == 0 {
		opt.KeepSample = 6
	}
	rep := &Report{Harness: name, Outcomes: map[string]int{}, Reached: map[string]int{}, Notes: map[string]int{},
		Msgs: map[string]int{}, Funcs: map[string]bool{}}
	t0 := time.Now()

	var mu sync.Mutex
	cond := sync.NewCond(&mu)
	queue := []PendingPath{{}}
	active := 0
	stop := false

	worker := func() {
		s, err := smt.NewSolver(opt.SolverBin, opt.TimeoutMs)
		if err != nil {
			mu.Lock()
			rep.Msgs["solver start failed: "+err.Error()]++
			stop = true
			cond.Broadcast()
			mu.Unlock()
			return
		}
		defer s.Close()
		if lf := os.Getenv("ZSYM_SMTLOG"); lf != "" {
			if f, err := os.Create(lf); err == nil {
				s.Log = f
				defer f.Close()
			}
		}
		for {
			mu.Lock()
			for len(queue) == 0 && active > 0 && !stop {
				cond.Wait()
			}
			if stop || (len(queue) == 0 && active == 0) {
				cond.Broadcast()
				mu.Unlock()
				break
			}
			prefix := queue[len(queue)-1]
			queue = queue[:len(queue)-1]
			active++
			mu.Unlock()

			res, p := w.RunPath(fn, s, prefix, opt.MaxSteps)

			mu.Lock()
			active--
			rep.Paths++
			rep.Outcomes[res.Outcome]++
			if res.Msg != "" && res.Outcome != "ok" && res.Outcome != "violation" {
				m := res.Msg
				if len(m) > 300 {
					m = m[:300]
				}
				rep.Msgs[res.Outcome+": "+m]++
			}
			for _, t := range res.Reached {
				rep.Reached[t]++
			}
			for k, n := range res.Notes {
				rep.Notes[k] += n
			}
			for f := range p.FuncsSeen {
				rep.Funcs[f] = true
			}
			if rep.MapRanges == nil {
				rep.MapRanges = map[string]bool{}
			}
			for f := range p.MapRanges {
				rep.MapRanges[f] = true
			}
			rep.Decisions += p.NDecisions
			rep.SolverCalls += p.NSolver
			rep.ModelHits += p.NModelHits
			rep.Asserts += p.NAsserts
			rep.AssertSyn += p.NAssertSyn
			rep.AssertQuery += p.NAssertQuery
			rep.Unknowns += p.NUnknown
			rep.Steps += p.Steps
			if len(res.Trace) > rep.MaxTraceLen {
				rep.MaxTraceLen = len(res.Trace)
			}
			if res.Violation != nil {
				rep.ViolationCount++
				if rep.perLabel == nil {
					rep.perLabel = map[string]int{}
				}
				// keep up to 4 candidates per assertion label and, beyond that,
				// up to 2 per (label, first two harness choices) - the choices a
				// harness makes first are its configuration, and a candidate
				// that does not reproduce natively under one configuration may
				// under another - at most 16 per label
				rep.perLabel[res.Violation.Label]++
				cfgKey := res.Violation.Label + "|"
				for k := 0; k < 2 && k < len(res.Violation.Forks); k++ {
					cfgKey += fmt.Sprint(res.Violation.Forks[k]) + ","
				}
				rep.perLabel[cfgKey]++
				n := rep.perLabel[res.Violation.Label]
				if (n <= 4 || (rep.perLabel[cfgKey] <= 2 && rep.perLabel["kept|"+res.Violation.Label] < 16)) && len(rep.Violations) < 200 {
					rep.perLabel["kept|"+res.Violation.Label]++
					rep.Violations = append(rep.Violations, res.Violation)
				}
				if opt.StopOnViolation {
					stop = true
				}
			}
			if res.Outcome == "budget" && len(rep.Violations) < 50 {
				rep.Violations = append(rep.Violations, &Violation{Label: "budget", Inputs: res.Inputs, Tables: p.Tables,
					Forks: append([]int32(nil), p.Forks...), Trace: res.Trace, Detail: res.Msg})
			}
			if res.Outcome == "panic" && len(rep.Violations) < 50 {
				// an uncaught panic out of the harness is itself a finding candidate
				rep.Violations = append(rep.Violations, &Violation{Label: "uncaught-panic", Inputs: res.Inputs, Tables: p.Tables,
					Forks: append([]int32(nil), p.Forks...), Trace: res.Trace, Detail: res.Msg})
			}
			if (res.Outcome == "unsupported" || res.Outcome == "engine") && len(rep.Fallback) < 64 {
				rep.Fallback = append(rep.Fallback, res)
			}
			if len(rep.Samples) < opt.KeepSample || (res.Outcome != "ok" && len(rep.Samples) < 3*opt.KeepSample) {
				rep.Samples = append(rep.Samples, res)
			}
			queue = append(queue, p.Pending...)
			if opt.MaxPaths > 0 && rep.Paths+len(queue) > opt.MaxPaths && rep.Paths >= opt.MaxPaths {
				rep.Truncated = true
				stop = true
			}
			if !opt.Deadline.IsZero() && time.Now().After(opt.Deadline) {
				rep.Truncated = true
				stop = true
			}
			cond.Broadcast()
			mu.Unlock()
		}
		mu.Lock()
		rep.SolverTime += s.Time
		rep.SolverErrors += s.Errors
		mu.Unlock()
	}
	var wg sync.WaitGroup
	for k := 0; k < opt.Workers; k++ {
		wg.Add(1)
		go func() { defer wg.Done(); worker() }()
	}
	wg.Wait()
	if len(queue) > 0 {
		rep.Truncated = true
	}
	rep.Wall = time.Since(t0)
	return rep, nil
}

func (r *Report) Summary() string {
	var sb strings.Builder
	fmt.Fprintf(&sb, "%s: paths=%d outcomes=%v decisions=%d solver=%d modelhits=%d asserts=%d(syn %d, query %d) unknown=%d steps=%d solver_time=%.1fs wall=%.1fs truncated=%v\n",
		r.Harness, r.Paths, r.Outcomes, r.Decisions, r.SolverCalls, r.ModelHits, r.Asserts, r.AssertSyn, r.AssertQuery, r.Unknowns, r.Steps, r.SolverTime.Seconds(), r.Wall.Seconds(), r.Truncated)
	var keys []string
	for k := range r.Msgs {
		keys = append(keys, k)
	}
	sort.Strings(keys)
	for _, k := range keys {
		fmt.Fprintf(&sb, "   [%d] %s\n", r.Msgs[k], k)
	}
	keys = keys[:0]
	for k := range r.Notes {
		keys = append(keys, k)
	}
	sort.Strings(keys)
	for _, k := range keys {
		fmt.Fprintf(&sb, "   note[%d] %s\n", r.Notes[k], k)
	}
	return sb.String()
}

var _ = types.Bool

// DefaultSolver: $ZSYM_SOLVER, else z3-new (5.1.0; measured 70x faster than
// z3 4.8.12 on the engine's define-fun heavy incremental scripts), else z3.
func DefaultSolver() string {
	if s := os.Getenv("ZSYM_SOLVER"); s != "" {
		return s
	}
	if p, err := exec.LookPath("z3-new"); err == nil {
		return p
	}
	return "z3"
}
