package interp

// Loading the real code (current working tree) and classifying functions.

import (
	"fmt"
	"go/constant"
	"go/types"
	"os"
	"sort"
	"strings"
	"sync"
	"time"

	"golang.org/x/tools/go/packages"
	"golang.org/x/tools/go/ssa"
	"golang.org/x/tools/go/ssa/ssautil"
)

const znPrefix = "github.com/DemoHn/Zn"

type fnClass int

const (
	fnInterp fnClass = iota
	fnForeign
	fnZV
)

type World struct {
	Prog               *ssa.Program
	Pkgs               []*packages.Package
	byPath             map[string]*ssa.Package
	interpPkg          map[*ssa.Package]bool
	sizes              types.Sizes
	runtimeErrorString types.Type
	trackFuncs         bool
	Harness            *ssa.Package
	LoadSeconds        float64
	ZnFiles            []string // source files of the Zn packages that were loaded
	Tier               int
	pathDeadline       time.Time // set by Explore: exploration deadline + 60 s
	tabMu              sync.Mutex
	allFuncs           map[string]*ssa.Function
}

// InterpretedStd lists standard-library packages whose SSA is executed (pure
// Go code that must see symbolic data).
var InterpretedStd = map[string]bool{
	"unicode/utf8": true,
}

// forceInterp: functions of foreign (natively called) packages that are
// executed from their SSA when symbolic data reaches them: bytes.Reader is the
// reader behind pkg/io's ByteStream (input-variable text).
var forceInterp = map[string]bool{
	"bytes.NewReader":          true,
	"(*bytes.Reader).Read":     true,
	"(*bytes.Reader).Len":      true,
	"(*bytes.Reader).Size":     true,
	"(*bytes.Reader).ReadByte": true,
}

var forceInterpPkgs = []string{"bytes"}

// interpretForeign: package-level function with symbolic arguments, or method
// whose receiver lives on the interpreter's side (was created by such a call).
func interpretForeign(fn *ssa.Function, args []value) bool {
	if fn.Signature.Recv() != nil {
		if len(args) == 0 {
			return false
		}
		_, native := args[0].(*nativeObj)
		return !native
	}
	for _, a := range args {
		if containsSym(a) {
			return true
		}
	}
	return false
}

func isInterpPath(p string) bool {
	return p == znPrefix || strings.HasPrefix(p, znPrefix+"/") || strings.HasPrefix(p, "zsym/harness") || InterpretedStd[p]
}

// Load loads pattern (a harness package of this module) with all dependencies
// from source, builds SSA for the interpreted packages.
func Load(dir string, overlay map[string][]byte, patterns ...string) (*World, error) {
	cfg := &packages.Config{
		Mode:    packages.LoadAllSyntax,
		Dir:     dir,
		Overlay: overlay,
		Env:     append(os.Environ(), "GOFLAGS=-mod=mod", "GOPROXY=off", "GOSUMDB=off", "GOTOOLCHAIN=local"),
	}
	initial, err := packages.Load(cfg, patterns...)
	if err != nil {
		return nil, err
	}
	var errs []string
	packages.Visit(initial, nil, func(p *packages.Package) {
		for _, e := range p.Errors {
			errs = append(errs, e.Error())
		}
	})
	if len(errs) > 0 {
		return nil, fmt.Errorf("load errors:\n%s", strings.Join(errs, "\n"))
	}
	prog, _ := ssautil.AllPackages(initial, ssa.InstantiateGenerics|ssa.SanityCheckFunctions*0)
	w := &World{Prog: prog, Pkgs: initial, byPath: map[string]*ssa.Package{}, interpPkg: map[*ssa.Package]bool{}, trackFuncs: true}
	for _, p := range prog.AllPackages() {
		w.byPath[p.Pkg.Path()] = p
		if isInterpPath(p.Pkg.Path()) {
			w.interpPkg[p] = true
		}
	}
	var order []*ssa.Package
	for p := range w.interpPkg {
		order = append(order, p)
	}
	sort.Slice(order, func(a, b int) bool { return order[a].Pkg.Path() < order[b].Pkg.Path() })
	for _, p := range order {
		p.Build()
	}
	for _, path := range forceInterpPkgs {
		if p := w.byPath[path]; p != nil {
			p.Build()
		}
	}
	packages.Visit(initial, nil, func(p *packages.Package) {
		if strings.HasPrefix(p.PkgPath, znPrefix) {
			w.ZnFiles = append(w.ZnFiles, p.GoFiles...)
		}
	})
	sort.Strings(w.ZnFiles)
	w.sizes = types.SizesFor("gc", "amd64")
	rt := w.byPath["runtime"]
	if rt == nil {
		return nil, fmt.Errorf("runtime package not loaded")
	}
	w.runtimeErrorString = rt.Type("errorString").Object().Type()
	w.Harness = prog.Package(initial[0].Types)
	return w, nil
}

func (i *interpreter) classify(fn *ssa.Function) fnClass {
	if c, ok := i.classCache[fn]; ok {
		return c
	}
	c := i.world.classify1(fn)
	i.classCache[fn] = c
	return c
}

func (w *World) classify1(fn *ssa.Function) fnClass {
	p := fn.Package()
	if p == nil {
		// synthetic wrapper / bound method / instantiation: interpret when
		// it has a body
		if fn.Blocks != nil {
			return fnInterp
		}
		if o := fn.Origin(); o != nil && o.Package() != nil {
			p = o.Package()
		} else {
			return fnForeign
		}
	}
	if p.Pkg.Path() == "zsym/zv" {
		return fnZV
	}
	if w.interpPkg[p] {
		return fnInterp
	}
	if fn.Synthetic != "" && fn.Blocks != nil && fn.Name() != "init" {
		return fnInterp
	}
	return fnForeign
}

// stringTable returns the constant string keys of the map literals built
// inside the named function (member tables of the built-in types), read from
// the SSA of the current tree.
func (w *World) stringTable(fnName string) []string {
	w.tabMu.Lock()
	defer w.tabMu.Unlock()
	if w.allFuncs == nil {
		w.allFuncs = map[string]*ssa.Function{}
		for f := range ssautil.AllFunctions(w.Prog) {
			if p := f.Package(); p != nil && w.interpPkg[p] {
				w.allFuncs[f.String()] = f
			}
		}
	}
	f := w.allFuncs[fnName]
	if f == nil {
		return nil
	}
	var keys []string
	seen := map[string]bool{}
	for _, b := range f.Blocks {
		for _, in := range b.Instrs {
			if mu, ok := in.(*ssa.MapUpdate); ok {
				if c, ok := mu.Key.(*ssa.Const); ok && c.Value != nil && c.Value.Kind() == constant.String {
					k := constant.StringVal(c.Value)
					if !seen[k] {
						seen[k] = true
						keys = append(keys, k)
					}
				}
			}
		}
	}
	return keys
}

// MapRangeSites lists the functions of the Zn packages that range over a Go map.
func (w *World) MapRangeSites() []string {
	seen := map[string]bool{}
	for f := range ssautil.AllFunctions(w.Prog) {
		p := f.Package()
		if p == nil || !strings.HasPrefix(p.Pkg.Path(), znPrefix) {
			continue
		}
		for _, b := range f.Blocks {
			for _, in := range b.Instrs {
				if rg, ok := in.(*ssa.Range); ok {
					if _, isMap := rg.X.Type().Underlying().(*types.Map); isMap {
						seen[f.String()] = true
					}
				}
			}
		}
	}
	var out []string
	for f := range seen {
		out = append(out, f)
	}
	sort.Strings(out)
	return out
}

// PureFuncs: functions without side effects whose calls with symbolic
// arguments are summarised (their own un-summarised behaviour is checked by
// C04-K1 / the conformance replays).  Harness helpers named pure* qualify too.
var PureFuncs = map[string]bool{
	"github.com/DemoHn/Zn/pkg/syntax.IsWhiteSpace":        true,
	"github.com/DemoHn/Zn/pkg/syntax.ContainsRune":        true,
	"github.com/DemoHn/Zn/pkg/syntax.containsRune":        true,
	"github.com/DemoHn/Zn/pkg/syntax.ContainsInt":         true,
	"github.com/DemoHn/Zn/pkg/syntax.IdInRange":           true,
	"github.com/DemoHn/Zn/pkg/syntax/zh.isIdentifierChar": true,
	"github.com/DemoHn/Zn/pkg/syntax/zh.isPureNumber":     true,
}

func (w *World) isPure(fn *ssa.Function) bool {
	if fn.Parent() != nil {
		return false
	}
	if PureFuncs[fn.String()] {
		return true
	}
	if p := fn.Package(); p != nil && strings.HasPrefix(p.Pkg.Path(), "zsym/harness") && strings.HasPrefix(fn.Name(), "pure") {
		return true
	}
	return false
}

// PackageFunc finds a package-level function of the harness package.
func (w *World) HarnessFunc(name string) *ssa.Function {
	return w.Harness.Func(name)
}

// HarnessFuncs lists exported functions of the harness package with the given prefix.
func (w *World) HarnessFuncs(prefix string) []string {
	var out []string
	for name, m := range w.Harness.Members {
		if f, ok := m.(*ssa.Function); ok && strings.HasPrefix(name, prefix) && f.Signature.Params().Len() == 0 {
			out = append(out, name)
		}
	}
	sort.Strings(out)
	return out
}
