package interp

// Path-explosion control that keeps the verdict a solver verdict:
//  (1) short-circuit merging: chains of conditional blocks that only compute
//      further comparisons and lead to the same target (multi-value switch
//      cases, a||b, a&&b) become one decision on the disjunction/conjunction;
//  (2) summaries of pure functions: the callee's paths are explored locally
//      (solver-checked) and folded into one ite-term.

import (
	"go/token"
	"go/types"

	"golang.org/x/tools/go/ssa"
	"zsym/smt"
)

func pureSimple(instr ssa.Instruction) bool {
	switch in := instr.(type) {
	case *ssa.BinOp:
		switch in.Op {
		case token.QUO, token.REM, token.SHL, token.SHR:
			return false
		}
		_, ok := in.X.Type().Underlying().(*types.Basic)
		return ok
	case *ssa.UnOp:
		switch in.Op {
		case token.NOT, token.SUB, token.XOR:
			return true
		}
		return false
	case *ssa.Convert:
		_, ok1 := in.X.Type().Underlying().(*types.Basic)
		b2, ok2 := in.Type().Underlying().(*types.Basic)
		return ok1 && ok2 && b2.Info()&types.IsString == 0
	case *ssa.ChangeType, *ssa.DebugRef:
		return true
	}
	return false
}

// chainBlock reports whether b is a block that only computes a further
// condition: single predecessor, no phis, pure instructions, ends in If.
func chainBlock(b *ssa.BasicBlock) (*ssa.If, bool) {
	if len(b.Preds) != 1 || len(b.Instrs) == 0 || len(b.Instrs) > 12 {
		return nil, false
	}
	last, ok := b.Instrs[len(b.Instrs)-1].(*ssa.If)
	if !ok {
		return nil, false
	}
	for _, in := range b.Instrs[:len(b.Instrs)-1] {
		if !pureSimple(in) {
			return nil, false
		}
	}
	return last, true
}

// phiCompatible: entering target from pred a or pred b gives the same phi values.
func phiCompatible(target, a, b *ssa.BasicBlock) bool {
	ia, ib := -1, -1
	for k, p := range target.Preds {
		if p == a && ia < 0 {
			ia = k
		}
		if p == b && ib < 0 {
			ib = k
		}
	}
	if ia < 0 || ib < 0 {
		return false
	}
	for _, in := range target.Instrs {
		phi, ok := in.(*ssa.Phi)
		if !ok {
			break
		}
		ea, eb := phi.Edges[ia], phi.Edges[ib]
		if ea == eb {
			continue
		}
		ca, okA := ea.(*ssa.Const)
		cb, okB := eb.(*ssa.Const)
		if okA && okB && ca.Value != nil && cb.Value != nil && ca.Value.ExactString() == cb.Value.ExactString() && types.Identical(ca.Type(), cb.Type()) {
			continue
		}
		return false
	}
	return true
}

func (i *interpreter) runPure(fr *frame, b *ssa.BasicBlock) {
	for _, in := range b.Instrs[:len(b.Instrs)-1] {
		visitInstr(fr, in)
	}
}

// branch executes an If whose condition is symbolic, merging short-circuit chains.
func (i *interpreter) branch(fr *frame, instr *ssa.If, cond *Sym) {
	b := i.path.B
	X := fr.block
	T, F := X.Succs[0], X.Succs[1]
	c := cond.T
	predT, predF := X, X
	for steps := 0; steps < 64; steps++ {
		// OR chain: false successor computes another test jumping to the same T
		if nxt, ok := chainBlock(F); ok && F != T && nxt.Block().Succs[0] == T && phiCompatible(T, predT, F) {
			i.runPure(fr, F)
			c2 := i.term(fr.get(nxt.Cond))
			c = b.Or(c, c2)
			predF = F
			F = F.Succs[1]
			continue
		}
		// AND chain: true successor computes another test failing to the same F
		if nxt, ok := chainBlock(T); ok && T != F && nxt.Block().Succs[1] == F && phiCompatible(F, predF, T) {
			i.runPure(fr, T)
			c2 := i.term(fr.get(nxt.Cond))
			c = b.And(c, c2)
			predT = T
			T = T.Succs[0]
			continue
		}
		break
	}
	if i.decideT(c) {
		fr.prevBlock, fr.block = predT, T
	} else {
		fr.prevBlock, fr.block = predF, F
	}
}

// ---------------------------------------------------------------- summaries

type summaryAbort struct{ why string }

// localCtx is the state of an inner (summary) exploration.
type localCtx struct {
	prefix  []bool
	pos     int
	trace   []bool
	pending [][]bool
	pc      []*smt.Term
}

func scalarResult(v value) bool {
	switch v.(type) {
	case bool, int, int8, int16, int32, int64, uint, uint8, uint16, uint32, uint64, uintptr, float64, float32, *Sym:
		return true
	}
	return false
}

// summarize tries to evaluate the pure call fn(args) as one merged term.
func (i *interpreter) summarize(fr *frame, fn *ssa.Function, args []value, env []value) (res value, ok bool) {
	p := i.path
	if p.local != nil {
		return nil, false // nested summaries run inline inside the outer one
	}
	type outcome struct {
		pc  *smt.Term
		val value
	}
	var outs []outcome
	queue := [][]bool{nil}
	total := 0
	defer func() { p.local = nil }()
	for len(queue) > 0 {
		prefix := queue[len(queue)-1]
		queue = queue[:len(queue)-1]
		total++
		if total > 2048 {
			return nil, false
		}
		lc := &localCtx{prefix: prefix}
		p.local = lc
		var val value
		failed := false
		func() {
			defer func() {
				if r := recover(); r != nil {
					switch r.(type) {
					case summaryAbort, targetPanic, runtimePanic:
						failed = true
					default:
						panic(r)
					}
				}
			}()
			val = callSSABody(i, fr, fn, args, env)
		}()
		p.local = nil
		if failed {
			return nil, false
		}
		b := p.B
		pc := b.BoolC(true)
		for _, t := range lc.pc {
			pc = b.And(pc, t)
		}
		outs = append(outs, outcome{pc, val})
		queue = append(queue, lc.pending...)
	}
	if len(outs) == 0 {
		return nil, false
	}
	p.NSummaries++
	p.NSummaryPaths += len(outs)
	// merge
	first := outs[0].val
	if tu, isT := first.(tuple); isT {
		merged := make(tuple, len(tu))
		for k := range tu {
			var vals []value
			for _, o := range outs {
				vals = append(vals, o.val.(tuple)[k])
			}
			m, ok := i.mergeVals(func(j int) *smt.Term { return outs[j].pc }, vals)
			if !ok {
				return nil, false
			}
			merged[k] = m
		}
		return merged, true
	}
	var vals []value
	for _, o := range outs {
		vals = append(vals, o.val)
	}
	m, ok := i.mergeVals(func(j int) *smt.Term { return outs[j].pc }, vals)
	return m, ok
}

func (i *interpreter) mergeVals(pc func(int) *smt.Term, vals []value) (value, bool) {
	if vals[0] == nil {
		for _, v := range vals {
			if v != nil {
				return nil, false
			}
		}
		return nil, true
	}
	for _, v := range vals {
		if !scalarResult(v) {
			return nil, false
		}
	}
	k := kindOf(vals[0])
	b := i.path.B
	acc := i.term(vals[len(vals)-1])
	for j := len(vals) - 2; j >= 0; j-- {
		acc = b.Ite(pc(j), i.term(vals[j]), acc)
	}
	return mkScalar(acc, k), true
}

// localDecide resolves a branch inside a summary exploration.
func (p *Path) localDecide(c *smt.Term) bool {
	lc := p.local
	b := p.B
	if lc.pos < len(lc.prefix) {
		d := lc.prefix[lc.pos]
		lc.pos++
		lc.trace = append(lc.trace, d)
		if d {
			lc.pc = append(lc.pc, c)
		} else {
			lc.pc = append(lc.pc, b.Not(c))
		}
		return d
	}
	if len(lc.trace) > 4096 {
		panic(summaryAbort{"summary path too long"})
	}
	extra := append(append([]*smt.Term(nil), lc.pc...), c)
	var r1, r2 smt.Result
	known1, known2 := false, false
	// the outer model decides one side for free when it follows this local path
	if p.modelOK {
		follows := true
		for _, t := range lc.pc {
			if v, ok := p.eval(t); !ok || v != 1 {
				follows = false
				break
			}
		}
		if follows {
			if v, ok := p.eval(c); ok {
				if v == 1 {
					r1, known1 = smt.Sat, true
				} else {
					r2, known2 = smt.Sat, true
				}
			}
		}
	}
	if !known1 {
		p.NSolver++
		r1, _ = p.checkSliced(false, extra...)
	}
	if !known2 {
		r2 = smt.Sat
		if r1 != smt.Unsat {
			p.NSolver++
			extra[len(extra)-1] = b.Not(c)
			r2, _ = p.checkSliced(false, extra...)
		}
	}
	if r1 == smt.Unknown || r2 == smt.Unknown {
		p.NUnknown++
		p.Notes["summary: feasibility unknown (branch kept)"]++
	}
	take := r1 != smt.Unsat
	if take && r2 != smt.Unsat {
		np := make([]bool, len(lc.trace)+1)
		copy(np, lc.trace)
		np[len(lc.trace)] = false
		lc.pending = append(lc.pending, np)
	}
	lc.trace = append(lc.trace, take)
	lc.pos++
	lc.prefix = append(lc.prefix, take)
	if take {
		lc.pc = append(lc.pc, c)
	} else {
		lc.pc = append(lc.pc, b.Not(c))
	}
	return take
}
