#!/usr/bin/env python3
# regenerate MANIFEST.json from checks.json (claimed) + properties.jsonl
import json
props=[json.loads(l) for l in open('/verif/properties.jsonl')]
checks=json.load(open('/verif/checks.json'))
na_reasons=json.load(open('/verif/not_applicable.json')) if __import__('os').path.exists('/verif/not_applicable.json') else {}
m={
 "version":1,
 "setup_cmd":"cd /verif/engine && GOFLAGS=-mod=mod GOPROXY=off GOSUMDB=off GOTOOLCHAIN=local go build -o /verif/bin/zsym ./cmd/zsym",
 "hooks":{"guard":"verif","enable":"none needed: harnesses and in-package constructors enter through go/packages overlays and `go test -overlay`; /repo carries no hook code","baseline_off_cmd":"cd /repo && go test -vet=off -count=1 ./pkg/exec/... ./pkg/io/... ./pkg/runtime/... ./pkg/syntax/... ./pkg/value/...","source_commits":[],"add_only":True},
 "engines":[{"name":"zsym","path":"/verif/engine","serves_properties":sorted(checks.keys()),"kind_free_text":"bounded symbolic executor for go/ssa (fork of x/tools ssa/interp) with z3 4.8.12 back end (z3 -in, push/pop); counterexamples and sampled paths are replayed against the natively built repository"}],
 "checks":[],
 "not_applicable":[],
 "notes":"see DESIGN.md; known_findings.json lists recorded/fixed defects"
}
for p in props:
    pid=p['id']
    if pid in checks:
        c=checks[pid]
        m['checks'].append({
          "property_id":pid,
          "quick_cmd":"./check %s quick"%pid,
          "thorough_cmd":"./check %s thorough"%pid,
          "evidence_file":"/verif/evidence/%s.json"%pid,
          "replay_cmd_template":"./check --replay {path}",
          "engine":"zsym",
          "level_claimed":{"category":"model_checking","text":"bounded symbolic execution of the real code's SSA: inputs are SMT variables, every branch/fault/assertion on them is decided by z3 for all values inside the stated bounds (%s); counterexamples are replayed natively before being reported"%c['bounds']['quick'],"design_ref":"DESIGN.md section 4 "+pid},
          "level_note":"trusted: go/ssa construction, the forked interpreter (cross-checked by native replays of sampled paths on every run), z3; foreign functions with symbolic arguments use the models/contract stubs listed in the evidence; outside the claim: "+"; ".join(c.get('outside',[])),
          "technique":"SMT-backed bounded symbolic execution of go/ssa (solver-decided branches, faults and assertions; native replay)"})
    else:
        m['not_applicable'].append({"property_id":pid,"reason":na_reasons.get(pid,"check not built yet in this round; see DESIGN.md Appendix C")})
json.dump(m,open('/verif/MANIFEST.json','w'),indent=1,ensure_ascii=False)
print(len(m['checks']),'claimed')
