#!/bin/sh
# run every registered quick (or thorough) check; print one status line each
tier=${1:-quick}
cd /verif
for id in $(python3 -c "import json; print(' '.join(sorted(json.load(open('checks.json')).keys())))"); do
  t0=$(date +%s)
  ./check $id $tier > /tmp/zsym-$id.out 2>&1
  rc=$?
  t1=$(date +%s)
  inc=$(python3 -c "import json; e=json.load(open('evidence/$id.json')); print(len(e['coverage']['incomplete']), e['coverage']['traces_validated_against_impl'], e['coverage']['states'])" 2>/dev/null)
  echo "$id rc=$rc $((t1-t0))s incomplete/validated/states=$inc $(grep -c KNOWN-FINDING /tmp/zsym-$id.out) known"
done
