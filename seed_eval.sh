#!/bin/sh
# usage: seed_eval.sh <property-id> <seed-dir with patch.diff, meta.json, demo_test.go> [tier]
# Confirms a seeded change (applies, baseline tests pass, demo fails with it and passes without),
# then runs ./check <id> against it. /repo is restored afterwards.
id=$1; dir=$2; tier=${3:-quick}
export GOFLAGS=-mod=mod GOPROXY=off GOSUMDB=off GOTOOLCHAIN=local
cd /repo || exit 2
[ -z "$(git status --short)" ] || { echo "repo not clean"; exit 2; }
loc=$(python3 -c "import json;print(json.load(open('$dir/meta.json'))['demo_location'])")
pat=$(python3 -c "
import json,re
c=json.load(open('$dir/meta.json'))['run_cmd']
m=re.search(r'-run\s+(\S+)',c)
print(m.group(1).strip(chr(39)+chr(34)) if m else '.')")
pkgdir=$(dirname "$loc")
extras=$(python3 -c "
import json
m=json.load(open('$dir/meta.json')).get('demo_extra_files',{})
print(' '.join(k+'='+v for k,v in m.items()))")
put_demo() { cp "$dir/demo_test.go" "/repo/$loc"; for kv in $extras; do cp "$dir/${kv#*=}" "/repo/${kv%%=*}"; done; }
del_demo() { rm -f "/repo/$loc"; for kv in $extras; do rm -f "/repo/${kv%%=*}"; done; }
restore() { cd /repo; git checkout -q -- . ; del_demo; rmdir "/repo/$pkgdir" 2>/dev/null; }
mkdir -p "/repo/$pkgdir"; put_demo
go test -vet=off -count=1 -run "$pat" "./$pkgdir/" > /tmp/seed-demo-clean.out 2>&1; clean_rc=$?
del_demo
if ! git apply "$dir/patch.diff"; then echo "PATCH-DOES-NOT-APPLY"; restore; exit 3; fi
go test -vet=off -count=1 ./pkg/exec/... ./pkg/io/... ./pkg/runtime/... ./pkg/syntax/... ./pkg/value/... > /tmp/seed-suite.out 2>&1; suite_rc=$?
put_demo
go test -vet=off -count=1 -run "$pat" "./$pkgdir/" > /tmp/seed-demo-mut.out 2>&1; mut_rc=$?
del_demo; rmdir "/repo/$pkgdir" 2>/dev/null
echo "CONFIRM demo-on-clean rc=$clean_rc (want 0) | suite-with-change rc=$suite_rc (want 0) | demo-with-change rc=$mut_rc (want !=0)"
export ZSYM_OUT_DIR=/tmp/zsym-seed-out; mkdir -p $ZSYM_OUT_DIR
cd /verif && ./check $id $tier > /tmp/seed-check.out 2>&1; check_rc=$?
echo "CHECK $id $tier rc=$check_rc"
grep -h "^VIOLATION\|^KNOWN" /tmp/seed-check.out | head -3
grep -h "zsym: violation" /tmp/seed-check.out | cut -c1-200 | head -3
restore
cd /repo && git status --short | head -3
